//! @inject file=literal/src/escape.rs package=rustpython-literal mod=verif_escape_proofs
//!
//! C16: repr of text and bytes. Per-character lemmas over ALL of Unicode / all 256 bytes, quote choice over all counts,
//! composition on short strings; expected output from models/repr_model.rs (validated against python3 repr()).
use super::*;
use std::fmt::Write as _;
include!("../common/_textgen.rs");
include!("../common/_stubs.rs");
include!("../../models/repr_model.rs");

/// fmt::Write sink without heap: records the first 16 bytes and counts all of them
struct Sink {
    buf: [u8; 16],
    len: usize,
}
impl Sink {
    fn new() -> Self {
        Sink { buf: [0; 16], len: 0 }
    }
}
impl std::fmt::Write for Sink {
    fn write_str(&mut self, s: &str) -> std::fmt::Result {
        for b in s.bytes() {
            if self.len < 16 {
                self.buf[self.len] = b;
            }
            self.len += 1;
        }
        Ok(())
    }
}

// The printable predicate is consulted by the layout pass and by the writer for the same character; in the quick tier
// it is replaced by one arbitrary-but-fixed answer (drawn before the calls, so concrete playback is unaffected).
static mut PRINTABLE_ANSWER: bool = false;
#[allow(dead_code)]
fn verif_is_printable(_c: char) -> bool {
    unsafe { PRINTABLE_ANSWER }
}

fn quote_of(q: Quote) -> u8 {
    match q {
        Quote::Single => b'\'',
        Quote::Double => b'"',
    }
}

fn check_unicode_char(c: char, real_table: bool) {
    let quote = if kani::any() { Quote::Single } else { Quote::Double };
    let cp = c as u32;
    let printable = if real_table { crate::char::is_printable(c) } else { unsafe { PRINTABLE_ANSWER } };
    let mut sink = Sink::new();
    UnicodeEscape::write_char(c, quote, &mut sink).unwrap();
    // (1) the writer produces exactly Python's escape of this character
    let mut want = [0u8; 10];
    let ascii_printable = cp >= 0x20 && cp < 0x7F;
    let wl = repr_char_model(cp, quote_of(quote), if cp < 0x80 { ascii_printable } else { printable }, &mut want);
    assert!(sink.len == wl);
    let i: usize = kani::any();
    kani::assume(i < wl);
    assert!(sink.buf[i] == want[i]);
    // (2) the layout announces that length: a quote is counted 1 here and its backslash is added once, at the end
    let announced = if c == '\'' || c == '"' { 1 } else { UnicodeEscape::escaped_char_len(c) };
    let escaped_quote = (c == quote.to_char()) as usize;
    assert!(announced + escaped_quote == sink.len);
    kani::cover!(sink.len == 10, "astral escape");
    kani::cover!(sink.len == 3 && !ascii_printable, "printable 3-byte character written as is");
    kani::cover!(sink.len == 2 && c == '"', "escaped double quote");
}

// @verif name=esc_char_all props=C16 tier=quick fns="UnicodeEscape::write_char,UnicodeEscape::escaped_char_len"
//   bound="every Unicode scalar value x both quotes x both answers of the printable predicate"
//   stubs="rustpython_literal::char::is_printable -> one arbitrary fixed bool per query (same answer for layout and writer)"
#[kani::proof]
#[kani::unwind(12)]
#[kani::stub(crate::char::is_printable, verif_is_printable)]
fn esc_char_all() {
    unsafe { PRINTABLE_ANSWER = kani::any() };
    let c: char = kani::any();
    check_unicode_char(c, false);
}

// @verif name=esc_latin1_table props=C16 tier=quick fns="char::is_printable,unic_ucd_category::GeneralCategory::of" nocover=1
//   bound="boundary characters of Latin-1 (U+0080, U+009F, U+00A0, U+00A1, U+00AC, U+00AD, U+00AE, U+00FF), evaluated concretely: the real category table gives Python's printable answer; connects the stubbed predicate of esc_char_all to the real table"
#[kani::proof]
#[kani::unwind(20)]
fn esc_latin1_table() {
    let cps = [0x80u32, 0x9F, 0xA0, 0xA1, 0xAC, 0xAD, 0xAE, 0xFF];
    for cp in cps {
        let c = char::from_u32(cp).unwrap();
        assert!(crate::char::is_printable(c) == latin1_printable(cp));
    }
}

// @verif name=esc_choose_quote props=C16 tier=quick fns="choose_quote" bound="all usize quote counts, both preferred quotes"
#[kani::proof]
fn esc_choose_quote() {
    let s: usize = kani::any();
    let d: usize = kani::any();
    let (q, n) = choose_quote(s, d, Quote::Single);
    assert!(quote_of(q) == repr_quote_model(s, d));
    assert!(n == if q == Quote::Single { s } else { d });
    // with the other preference the roles swap
    let (q2, n2) = choose_quote(s, d, Quote::Double);
    assert!((q2 == Quote::Single) == (d > 0 && s == 0));
    assert!(n2 == if q2 == Quote::Single { s } else { d });
    kani::cover!(q == Quote::Double, "double quotes chosen");
    kani::cover!(q == Quote::Single && s > 0, "single quotes kept although the value has some");
}

// @verif name=esc_byte_all props=C16 tier=quick fns="AsciiEscape::write_char,AsciiEscape::escaped_char_len"
//   bound="all 256 byte values x both quotes; output = Python's bytes repr"
#[kani::proof]
#[kani::unwind(12)]
fn esc_byte_all() {
    let b: u8 = kani::any();
    let quote = if kani::any() { Quote::Single } else { Quote::Double };
    let mut sink = Sink::new();
    AsciiEscape::write_char(b, quote, &mut sink).unwrap();
    let mut want = [0u8; 10];
    let wl = repr_byte_model(b, quote_of(quote), &mut want);
    assert!(sink.len == wl);
    let i: usize = kani::any();
    kani::assume(i < wl);
    assert!(sink.buf[i] == want[i]);
    let announced = if b == b'\'' || b == b'"' { 1 } else { AsciiEscape::escaped_char_len(b) };
    assert!(announced + (b == quote.to_byte()) as usize == sink.len);
    kani::cover!(sink.len == 4 && b >= 0x80, "high byte");
    kani::cover!(sink.len == 2 && b == b'\'', "escaped single quote");
}

/// composition: layout length = body length actually written; unchanged => body is the source; quote per Python
fn check_str_repr(buf: &[u8]) {
    let text = unsafe { std::str::from_utf8_unchecked(buf) };
    let esc = UnicodeEscape::new_repr(text);
    let mut singles = 0usize;
    let mut doubles = 0usize;
    for b in buf.iter() {
        singles += (*b == b'\'') as usize;
        doubles += (*b == b'"') as usize;
    }
    let q = esc.layout().quote;
    assert!(quote_of(q) == repr_quote_model(singles, doubles));
    let mut body = Sink::new();
    esc.write_body(&mut body).unwrap();
    assert!(esc.layout().len == Some(body.len));
    if !esc.changed() {
        assert!(body.len == buf.len());
        let i: usize = kani::any();
        kani::assume(i < buf.len());
        assert!(body.buf[i] == buf[i]);
    }
    kani::cover!(esc.changed(), "escaped body");
    kani::cover!(!esc.changed() && buf.len() == body.len, "fast path");
}

fn check_bytes_repr(buf: &[u8]) {
    let esc = AsciiEscape::new_repr(buf);
    let mut singles = 0usize;
    let mut doubles = 0usize;
    for b in buf.iter() {
        singles += (*b == b'\'') as usize;
        doubles += (*b == b'"') as usize;
    }
    let q = esc.layout().quote;
    assert!(quote_of(q) == repr_quote_model(singles, doubles));
    let mut body = Sink::new();
    esc.write_body(&mut body).unwrap();
    assert!(esc.layout().len == Some(body.len));
    // expected body: concatenation of the per-byte model
    let mut want = [0u8; 16];
    let mut wl = 0usize;
    for b in buf.iter() {
        let mut one = [0u8; 10];
        let n = repr_byte_model(*b, quote_of(q), &mut one);
        let mut k = 0;
        while k < n {
            if wl < 16 {
                want[wl] = one[k];
            }
            wl += 1;
            k += 1;
        }
    }
    assert!(wl == body.len);
    let i: usize = kani::any();
    kani::assume(i < wl && i < 16);
    assert!(body.buf[i] == want[i]);
    kani::cover!(esc.changed(), "escaped");
    kani::cover!(!esc.changed(), "fast path");
}

// @verif name=esc_str_sq_x props=C16 tier=quick fns="UnicodeEscape::new_repr,UnicodeEscape::repr_layout,UnicodeEscape::output_layout_with_checker,Escape::changed,Escape::write_body,UnicodeEscape::write_body_slow,UnicodeEscape::write_source"
//   bound="all strings <'><any ASCII character>"
#[kani::proof]
#[kani::unwind(12)]
fn esc_str_sq_x() {
    symbolic_text!(buf, 2, [139, 1]);
    check_str_repr(&buf);
}

// @verif name=esc_str_dq_x props=C16 tier=quick fns="UnicodeEscape::new_repr,UnicodeEscape::repr_layout,UnicodeEscape::output_layout_with_checker,Escape::changed,Escape::write_body"
//   bound="all strings <double quote><any ASCII character>"
#[kani::proof]
#[kani::unwind(12)]
fn esc_str_dq_x() {
    symbolic_text!(buf, 2, [134, 1]);
    check_str_repr(&buf);
}

// @verif name=esc_str_x props=C16 tier=quick fns="UnicodeEscape::new_repr,UnicodeEscape::repr_layout,Escape::changed,Escape::write_body"
//   bound="all strings of one ASCII character"
#[kani::proof]
#[kani::unwind(12)]
fn esc_str_x() {
    symbolic_text!(buf, 1, [1]);
    check_str_repr(&buf);
}

// @verif name=esc_str_a2 props=C16 tier=off timeout=2400 fns="UnicodeEscape::new_repr,UnicodeEscape::repr_layout,Escape::changed,Escape::write_body"
//   bound="all strings of 2 ASCII characters"
#[kani::proof]
#[kani::unwind(12)]
fn esc_str_a2() {
    symbolic_text!(buf, 2, [1, 1]);
    check_str_repr(&buf);
}

// @verif name=esc_str_a3 props=C16 tier=off timeout=2400 fns="UnicodeEscape::new_repr,UnicodeEscape::repr_layout,Escape::changed,Escape::write_body"
//   bound="all strings of 3 ASCII characters"
#[kani::proof]
#[kani::unwind(12)]
fn esc_str_a3() {
    symbolic_text!(buf, 3, [1, 1, 1]);
    check_str_repr(&buf);
}

// @verif name=esc_str_e1 props=C16 tier=thorough timeout=2400 fns="UnicodeEscape::new_repr,UnicodeEscape::repr_layout,Escape::write_body,char::is_printable"
//   bound="all strings <U+00E9><ASCII>, real Unicode category table"
#[kani::proof]
#[kani::unwind(16)]
fn esc_str_e1() {
    symbolic_text!(buf, 3, [12, 1]);
    check_str_repr(&buf);
}

// @verif name=esc_repr_wrap props=C16 tier=quick timeout=600 fns="StrRepr::write,BytesRepr::write,UnicodeEscape::with_forced_quote,AsciiEscape::with_forced_quote"
//   bound="1 symbolic ASCII character / byte: the repr is [b] quote body quote with the layout's quote"
#[kani::proof]
#[kani::unwind(12)]
fn esc_repr_wrap() {
    symbolic_text!(buf, 1, [1]);
    let text = unsafe { std::str::from_utf8_unchecked(&buf) };
    let esc = UnicodeEscape::new_repr(text);
    let q = quote_of(esc.layout().quote);
    let mut body = Sink::new();
    esc.write_body(&mut body).unwrap();
    let mut whole = Sink::new();
    esc.str_repr().write(&mut whole).unwrap();
    assert!(whole.len == body.len + 2 && whole.buf[0] == q && whole.buf[whole.len - 1] == q);
    let j: usize = kani::any();
    kani::assume(j < body.len);
    assert!(whole.buf[j + 1] == body.buf[j]);
    let besc = AsciiEscape::new_repr(&buf);
    let bq = quote_of(besc.layout().quote);
    let mut bbody = Sink::new();
    besc.write_body(&mut bbody).unwrap();
    let mut bwhole = Sink::new();
    besc.bytes_repr().write(&mut bwhole).unwrap();
    assert!(bwhole.len == bbody.len + 3 && bwhole.buf[0] == b'b' && bwhole.buf[1] == bq && bwhole.buf[bwhole.len - 1] == bq);
    kani::cover!(q == b'"', "double quotes");
    kani::cover!(body.len == 4, "hex escape");
}

// @verif name=esc_bytes_2 props=C16 tier=quick fns="AsciiEscape::new_repr,AsciiEscape::repr_layout,AsciiEscape::output_layout_with_checker,Escape::write_body,AsciiEscape::write_source,AsciiEscape::write_body_slow"
//   bound="all byte strings of length 2 (every byte value)"
#[kani::proof]
#[kani::unwind(12)]
fn esc_bytes_2() {
    let buf: [u8; 2] = kani::any();
    check_bytes_repr(&buf);
}

// @verif name=esc_bytes_3 props=C16 tier=thorough fns="AsciiEscape::new_repr,AsciiEscape::repr_layout,Escape::write_body"
//   bound="all byte strings of length 3 (every byte value)"
#[kani::proof]
#[kani::unwind(12)]
fn esc_bytes_3() {
    let buf: [u8; 3] = kani::any();
    check_bytes_repr(&buf);
}
