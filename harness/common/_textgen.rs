// Shared by several harness modules through include!().
// Texts are built from a *concrete* sequence of UTF-8 slot widths (so the byte length and the character boundaries are
// compile-time constants - cheap for CBMC) with *symbolic* slot contents:
//   width 1: every ASCII byte                       (0x00..=0x7F)
//   width 2: every 2-byte scalar                    (U+0080..=U+07FF)
//   width 3: U+1000..=U+CFFF and U+E000..=U+FFFF    (first byte E1..EC, EE, EF; includes the BOM U+FEFF)
//   width 4: U+40000..=U+FFFFF                      (first byte F1..F3)
// Slot kinds: 1..4 = symbolic character of that UTF-8 width; 12 = concrete U+00E9 (2 bytes);
// 13 = concrete BOM U+FEFF (3 bytes); 23 = concrete U+D55C (3 bytes); 14 = concrete U+1F600 (4 bytes).
// 100 + b = the concrete ASCII byte b (1 byte).
// The width of a slot kind is `slot_width(kind)`.
#[allow(dead_code)]
pub(crate) const fn slot_width(kind: usize) -> usize {
    if kind >= 100 { 1 } else { kind % 10 }
}

#[allow(dead_code)]
pub(crate) fn fill_slot(buf: &mut [u8], pos: usize, w: usize) {
    if w >= 100 {
        buf[pos] = (w - 100) as u8;
        return;
    }
    match w {
        12 => {
            buf[pos] = 0xC3;
            buf[pos + 1] = 0xA9;
        }
        13 => {
            buf[pos] = 0xEF;
            buf[pos + 1] = 0xBB;
            buf[pos + 2] = 0xBF;
        }
        23 => {
            buf[pos] = 0xED;
            buf[pos + 1] = 0x95;
            buf[pos + 2] = 0x9C;
        }
        14 => {
            buf[pos] = 0xF0;
            buf[pos + 1] = 0x9F;
            buf[pos + 2] = 0x98;
            buf[pos + 3] = 0x80;
        }
        1 => {
            let b: u8 = kani::any();
            kani::assume(b < 0x80);
            buf[pos] = b;
        }
        2 => {
            let b0: u8 = kani::any();
            let b1: u8 = kani::any();
            kani::assume(b0 >= 0xC2 && b0 <= 0xDF && b1 >= 0x80 && b1 <= 0xBF);
            buf[pos] = b0;
            buf[pos + 1] = b1;
        }
        3 => {
            let b0: u8 = kani::any();
            let b1: u8 = kani::any();
            let b2: u8 = kani::any();
            kani::assume((b0 >= 0xE1 && b0 <= 0xEC) || b0 == 0xEE || b0 == 0xEF);
            kani::assume(b1 >= 0x80 && b1 <= 0xBF && b2 >= 0x80 && b2 <= 0xBF);
            buf[pos] = b0;
            buf[pos + 1] = b1;
            buf[pos + 2] = b2;
        }
        _ => {
            let b0: u8 = kani::any();
            let b1: u8 = kani::any();
            let b2: u8 = kani::any();
            let b3: u8 = kani::any();
            kani::assume(b0 >= 0xF1 && b0 <= 0xF3);
            kani::assume(b1 >= 0x80 && b1 <= 0xBF && b2 >= 0x80 && b2 <= 0xBF && b3 >= 0x80 && b3 <= 0xBF);
            buf[pos] = b0;
            buf[pos + 1] = b1;
            buf[pos + 2] = b2;
            buf[pos + 3] = b3;
        }
    }
}

/// `symbolic_text!(buf, N, [w1, w2, ...])` declares `buf: [u8; N]` holding valid UTF-8 with the given slot widths.
#[allow(unused_macros)]
macro_rules! symbolic_text {
    ($buf:ident, $n:expr, [$($w:expr),*]) => {
        let mut $buf = [0u8; $n];
        #[allow(unused_assignments, unused_mut)]
        {
            let mut p = 0usize;
            $( fill_slot(&mut $buf, p, $w); p += slot_width($w); )*
            assert!(p == $n);
        }
    };
}

#[allow(dead_code)]
pub(crate) fn is_char_boundary(buf: &[u8], o: usize) -> bool {
    o == buf.len() || (o < buf.len() && (buf[o] & 0xC0) != 0x80)
}

/// true iff a line break (LF, CR not followed by LF, or CR LF) ENDS exactly at byte position p (1 <= p <= len)
#[allow(dead_code)]
pub(crate) fn break_ends_at(buf: &[u8], p: usize) -> bool {
    p >= 1 && p <= buf.len() && (buf[p - 1] == b'\n' || (buf[p - 1] == b'\r' && !(p < buf.len() && buf[p] == b'\n')))
}

#[allow(dead_code)]
pub(crate) fn starts_with_bom(buf: &[u8]) -> bool {
    buf.len() >= 3 && buf[0] == 0xEF && buf[1] == 0xBB && buf[2] == 0xBF
}

/// Reference row/column (both zero-based) of byte offset `o` by a naive scan: CR, LF and CRLF count once,
/// a column is a character, a BOM at the very start of the text is not a column.
#[allow(dead_code)]
pub(crate) fn ref_row_col(buf: &[u8], o: usize) -> (u32, u32) {
    let mut row = 0u32;
    let mut line_start = 0usize;
    let mut p = 1usize;
    while p <= o {
        if break_ends_at(buf, p) {
            row += 1;
            line_start = p;
        }
        p += 1;
    }
    let mut col = 0u32;
    let mut i = line_start;
    while i < o {
        if (buf[i] & 0xC0) != 0x80 {
            col += 1;
        }
        i += 1;
    }
    if line_start == 0 && starts_with_bom(buf) && o >= 3 {
        col -= 1;
    }
    (row, col)
}
