// Stubs shared by harness modules (include!d). Each is listed in the evidence of the checks that use it.

/// memchr's runtime CPU feature detection: report "no AVX2" so that its real SSE2 / byte-wise path is executed.
#[allow(dead_code)]
fn verif_cpuid_count(_leaf: u32, _sub: u32) -> core::arch::x86_64::CpuidResult {
    core::arch::x86_64::CpuidResult { eax: 0, ebx: 0, ecx: 0, edx: 0 }
}
#[allow(dead_code)]
fn verif_xgetbv(_x: u32) -> u64 {
    0
}

/// `core::str::slice_error_fail` formats an elaborate message before panicking; the stub panics at once.
/// (A str-slicing failure is still reported as a failed check.)
#[allow(dead_code)]
fn verif_slice_error_fail(_s: &str, _b: usize, _e: usize) -> ! {
    panic!("str slice index is out of range or not on a char boundary")
}

/// `core::str::count::do_count_chars` is the word-at-a-time path of `chars().count()` for strings of >= 32 bytes.
/// The stub panics, so a SUCCESSFUL verification proves it is never reached inside the bound (texts < 32 bytes).
#[allow(dead_code)]
fn verif_do_count_chars(_s: &str) -> usize {
    panic!("do_count_chars reached: text of 32 bytes or more")
}

/// Reference loops standing in for the `memchr` crate (external, trusted plumbing) where its pointer-level search code
/// dominates the query; some harnesses keep the real functions (listed per harness).
#[allow(dead_code)]
fn verif_memchr2(n1: u8, n2: u8, haystack: &[u8]) -> Option<usize> {
    let mut i = 0usize;
    while i < haystack.len() {
        if haystack[i] == n1 || haystack[i] == n2 {
            return Some(i);
        }
        i += 1;
    }
    None
}
#[allow(dead_code)]
fn verif_memrchr2(n1: u8, n2: u8, haystack: &[u8]) -> Option<usize> {
    let mut i = haystack.len();
    while i > 0 {
        i -= 1;
        if haystack[i] == n1 || haystack[i] == n2 {
            return Some(i);
        }
    }
    None
}
#[allow(dead_code)]
unsafe fn verif_memchr2_raw(n1: u8, n2: u8, start: *const u8, end: *const u8) -> Option<*const u8> {
    let mut p = start;
    while p < end {
        if *p == n1 || *p == n2 {
            return Some(p);
        }
        p = p.add(1);
    }
    None
}
#[allow(dead_code)]
unsafe fn verif_memrchr2_raw(n1: u8, n2: u8, start: *const u8, end: *const u8) -> Option<*const u8> {
    let mut p = end;
    while p > start {
        p = p.sub(1);
        if *p == n1 || *p == n2 {
            return Some(p);
        }
    }
    None
}

/// `format!` in error paths only builds message text; the stub returns an empty String (messages are never asserted).
#[allow(dead_code)]
fn verif_fmt_format(_args: core::fmt::Arguments<'_>) -> String {
    String::new()
}
