//! @inject file=core/src/mode.rs package=rustpython-parser-core mod=verif_mode_proofs
//!
//! C09: mode names. "exec" and "single" select module mode, "eval" expression mode, everything else is an error.
use super::*;
use std::str::FromStr;

fn check_mode<const N: usize>() {
    let bytes: [u8; N] = kani::any();
    let mut i = 0;
    while i < N {
        kani::assume(bytes[i] < 0x80);
        i += 1;
    }
    let s = unsafe { std::str::from_utf8_unchecked(&bytes) };
    let r = Mode::from_str(s);
    let is = |w: &[u8]| -> bool {
        if w.len() != N {
            return false;
        }
        let mut k = 0;
        while k < N {
            if w[k] != bytes[k] {
                return false;
            }
            k += 1;
        }
        true
    };
    match r {
        Ok(Mode::Module) => assert!(is(b"exec") || is(b"single")),
        Ok(Mode::Expression) => assert!(is(b"eval")),
        Ok(Mode::Interactive) => assert!(false, "no name selects interactive mode"),
        Err(_) => assert!(!is(b"exec") && !is(b"single") && !is(b"eval")),
    }
    kani::cover!(r.is_ok() || N != 4, "a valid name");
}

// @verif name=mode_names props=C09 tier=quick fns="Mode::from_str"
//   bound="every ASCII string of length 0..7"
#[kani::proof]
#[kani::unwind(10)]
fn mode_names() {
    check_mode::<0>();
    check_mode::<1>();
    check_mode::<2>();
    check_mode::<3>();
    check_mode::<4>();
    check_mode::<5>();
    check_mode::<6>();
    check_mode::<7>();
}
