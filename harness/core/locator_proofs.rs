//! @inject file=core/src/source_code.rs package=rustpython-parser-core mod=verif_locator_proofs
//!
//! C13 (K2): the incremental LinearLocator and the indexed RandomLocator agree with a naive reference row/column
//! for every text of a small concrete shape (symbolic ASCII slots, concrete multi-byte slots) and every
//! non-decreasing sequence of boundary offsets.
use super::*;
include!("../common/_textgen.rs");
include!("../common/_stubs.rs");

/// reference stand-in for the vendored `find_newline` (decided on its own under C15 nl_next_*): first CR / LF / CRLF
#[allow(dead_code)]
fn verif_find_newline(text: &str) -> Option<(usize, crate::source_location::newlines::LineEnding)> {
    use crate::source_location::newlines::LineEnding;
    let b = text.as_bytes();
    let mut i = 0usize;
    while i < b.len() {
        if b[i] == b'\n' {
            return Some((i, LineEnding::Lf));
        }
        if b[i] == b'\r' {
            return Some((i, if i + 1 < b.len() && b[i + 1] == b'\n' { LineEnding::CrLf } else { LineEnding::Cr }));
        }
        i += 1;
    }
    None
}

fn between_cr_lf(buf: &[u8], o: usize) -> bool {
    o >= 1 && o < buf.len() && buf[o - 1] == b'\r' && buf[o] == b'\n'
}

fn any_offset(buf: &[u8], min: usize) -> usize {
    let o: usize = kani::any();
    kani::assume(o >= min && o <= buf.len() && is_char_boundary(buf, o) && !between_cr_lf(buf, o));
    o
}

fn check_linear(buf: &[u8]) {
    let text = unsafe { std::str::from_utf8_unchecked(buf) };
    let mut lin = LinearLocator::new(text);
    // offsets never point into a leading BOM (the lexer skips it before the first token)
    let first = if starts_with_bom(buf) { 3 } else { 0 };
    let o1 = any_offset(buf, first);
    let o2 = any_offset(buf, o1);
    let l1 = lin.locate(TextSize::from(o1 as u32));
    let (r1, c1) = ref_row_col(buf, o1);
    assert!(l1.row.to_zero_indexed() == r1 && l1.column.to_zero_indexed() == c1);
    // a look-ahead query does not move the cursor
    let o3 = any_offset(buf, o1);
    let l3 = lin.locate_only(TextSize::from(o3 as u32));
    let (r3, c3) = ref_row_col(buf, o3);
    assert!(l3.row.to_zero_indexed() == r3 && l3.column.to_zero_indexed() == c3);
    let l2 = lin.locate(TextSize::from(o2 as u32));
    let (r2, c2) = ref_row_col(buf, o2);
    assert!(l2.row.to_zero_indexed() == r2 && l2.column.to_zero_indexed() == c2);
    kani::cover!(r2 > r1 && c2 > 0, "second offset on a later line, inside the line");
    kani::cover!(r2 == r1 && o2 > o1, "second offset on the same line");
    std::mem::forget(lin);
}

/// first query from the initial state
fn check_linear_one(buf: &[u8]) {
    let text = unsafe { std::str::from_utf8_unchecked(buf) };
    let mut lin = LinearLocator::new(text);
    let first = if starts_with_bom(buf) { 3 } else { 0 };
    let o1 = any_offset(buf, first);
    let l1 = lin.locate(TextSize::from(o1 as u32));
    let (r1, c1) = ref_row_col(buf, o1);
    assert!(l1.row.to_zero_indexed() == r1 && l1.column.to_zero_indexed() == c1);
    kani::cover!(r1 >= 1 && c1 >= 1, "inside a later line");
    kani::cover!(r1 == 0 && c1 >= 1, "inside the first line");
    std::mem::forget(lin);
}

/// two monotone queries: the second starts from whatever state the first left
fn check_linear_two(buf: &[u8]) {
    let text = unsafe { std::str::from_utf8_unchecked(buf) };
    let mut lin = LinearLocator::new(text);
    let first = if starts_with_bom(buf) { 3 } else { 0 };
    let o1 = any_offset(buf, first);
    let o2 = any_offset(buf, o1);
    let _ = lin.locate(TextSize::from(o1 as u32));
    let l2 = lin.locate(TextSize::from(o2 as u32));
    let (r2, c2) = ref_row_col(buf, o2);
    assert!(l2.row.to_zero_indexed() == r2 && l2.column.to_zero_indexed() == c2);
    kani::cover!(r2 >= 1 && o1 > 0, "second query on a later line after a non-trivial first one");
    std::mem::forget(lin);
}

/// a look-ahead query answers correctly and leaves the cursor where it was
fn check_linear_only(buf: &[u8]) {
    let text = unsafe { std::str::from_utf8_unchecked(buf) };
    let mut lin = LinearLocator::new(text);
    let first = if starts_with_bom(buf) { 3 } else { 0 };
    let o1 = any_offset(buf, first);
    let o3 = any_offset(buf, o1);
    let l3 = lin.locate_only(TextSize::from(o3 as u32));
    let (r3, c3) = ref_row_col(buf, o3);
    assert!(l3.row.to_zero_indexed() == r3 && l3.column.to_zero_indexed() == c3);
    // the earlier offset is still a legal (monotone) query afterwards and is answered correctly
    let l1 = lin.locate(TextSize::from(o1 as u32));
    let (r1, c1) = ref_row_col(buf, o1);
    assert!(l1.row.to_zero_indexed() == r1 && l1.column.to_zero_indexed() == c1);
    kani::cover!(r3 > r1, "look-ahead on a later line than the following query");
    std::mem::forget(lin);
}

fn check_random(buf: &[u8]) {
    let text = unsafe { std::str::from_utf8_unchecked(buf) };
    let mut rnd = RandomLocator::new(text);
    let first = if starts_with_bom(buf) { 3 } else { 0 };
    let o = any_offset(buf, first);
    let l = rnd.locate(TextSize::from(o as u32));
    let (r, c) = ref_row_col(buf, o);
    assert!(l.row.to_zero_indexed() == r && l.column.to_zero_indexed() == c);
    // error offsets convert the same way
    let err = crate::error::BaseError { error: 7u8, offset: TextSize::from(o as u32), source_path: String::new() };
    let located: LocatedError<u8> = rnd.locate_error(err);
    assert!(located.location == Some(l) && located.error == 7);
    kani::cover!(r >= 1 && c >= 1, "inside a later line");
    std::mem::forget(rnd);
    std::mem::forget(located);
}

macro_rules! loc_harness {
    ($name:ident, $f:ident, $n:expr, $u:expr, [$($w:expr),*]) => {
        #[kani::proof]
        #[kani::unwind($u)]
        #[kani::stub(memrchr2, verif_memrchr2)]
        #[kani::stub(find_newline, verif_find_newline)]
        // (if a change makes other `memchr` entry points reachable, their CPU-feature detection must not end the run
        // as an unsupported-construct failure: answer "no AVX2" so that the real code is executed)
        #[kani::stub(core::arch::x86_64::__cpuid_count, verif_cpuid_count)]
        #[kani::stub(core::arch::x86_64::_xgetbv, verif_xgetbv)]
        #[kani::stub(core::str::slice_error_fail, verif_slice_error_fail)]
        #[kani::stub(core::str::count::do_count_chars, verif_do_count_chars)]
        fn $name() {
            symbolic_text!(buf, $n, [$($w),*]);
            $f(&buf);
        }
    };
}

// @verif name=loc_linear1_a3 props=C13 tier=quick features=location timeout=900 probe=0a,0d,0a,0300000000000000 fns="LinearLocator::new,LinearLocatorState::init,LinearLocator::locate,LinearLocator::locate_inner,LinearLocatorState::new_line_start,UniversalNewlineIterator::count"
//   bound="all texts of 3 ASCII bytes; one locate() from the initial state at every boundary offset not between CR and LF"
//   stubs="memchr::memrchr2 -> reference loop;find_newline -> reference scan (decided separately under C15);core::str::slice_error_fail -> immediate panic;core::str::count::do_count_chars -> panic (unreachable below 32 bytes)"
//   assume="dev profile: LinearLocator's own debug self-check against LineIndex is compiled in and checked too"
loc_harness!(loc_linear1_a3, check_linear_one, 3, 6, [1, 1, 1]);
// @verif name=loc_linear1_b11 props=C13 tier=quick features=location timeout=900 fns="LinearLocator::new,LinearLocatorState::init,LinearLocator::locate,LinearLocator::locate_inner,LinearLocatorState::new_line_start,UniversalNewlineIterator::count"
//   bound="all texts <BOM><ASCII><ASCII>; one locate() at every offset after the BOM"
//   stubs="memchr::memrchr2 -> reference loop;find_newline -> reference scan (decided separately under C15);core::str::slice_error_fail -> immediate panic;core::str::count::do_count_chars -> panic (unreachable below 32 bytes)"
//   assume="dev profile: LinearLocator's own debug self-check against LineIndex is compiled in and checked too"
loc_harness!(loc_linear1_b11, check_linear_one, 5, 8, [13, 1, 1]);
// @verif name=loc_linear1_1e1 props=C13 tier=quick features=location timeout=900 fns="LinearLocator::new,LinearLocatorState::init,LinearLocator::locate,LinearLocator::locate_inner,LinearLocatorState::new_line_start,UniversalNewlineIterator::count"
//   bound="all texts <ASCII><U+00E9><ASCII>; one locate()"
//   stubs="memchr::memrchr2 -> reference loop;find_newline -> reference scan (decided separately under C15);core::str::slice_error_fail -> immediate panic;core::str::count::do_count_chars -> panic (unreachable below 32 bytes)"
//   assume="dev profile: LinearLocator's own debug self-check against LineIndex is compiled in and checked too"
loc_harness!(loc_linear1_1e1, check_linear_one, 4, 7, [1, 12, 1]);
// @verif name=loc_linear2_a3 props=C13 tier=quick features=location timeout=900 probe=0a,0d,0a,0000000000000000,0300000000000000 fns="LinearLocator::new,LinearLocatorState::init,LinearLocator::locate,LinearLocator::locate_inner,LinearLocatorState::new_line_start,UniversalNewlineIterator::count"
//   bound="all texts of 3 ASCII bytes; every non-decreasing pair of offsets (second query from the state the first left)"
//   stubs="memchr::memrchr2 -> reference loop;find_newline -> reference scan (decided separately under C15);core::str::slice_error_fail -> immediate panic;core::str::count::do_count_chars -> panic (unreachable below 32 bytes)"
//   assume="dev profile: LinearLocator's own debug self-check against LineIndex is compiled in and checked too"
loc_harness!(loc_linear2_a3, check_linear_two, 3, 6, [1, 1, 1]);
// @verif name=loc_linear_only_a3 props=C13 tier=quick features=location timeout=900 fns="LinearLocator::locate_only,LinearLocator::locate,LinearLocator::locate_inner"
//   bound="all texts of 3 ASCII bytes; a locate_only() look-ahead followed by a locate() at an earlier-or-equal offset"
//   stubs="memchr::memrchr2 -> reference loop;find_newline -> reference scan (decided separately under C15);core::str::slice_error_fail -> immediate panic;core::str::count::do_count_chars -> panic (unreachable below 32 bytes)"
loc_harness!(loc_linear_only_a3, check_linear_only, 3, 6, [1, 1, 1]);
// @verif name=loc_linear_a3 props=C13 tier=thorough features=location timeout=2400 fns="LinearLocator::new,LinearLocatorState::init,LinearLocator::locate,LinearLocator::locate_inner,LinearLocatorState::new_line_start,UniversalNewlineIterator::count"
//   bound="all texts of 3 ASCII bytes; two monotone locate() calls plus a locate_only() look-ahead"
//   stubs="memchr::memrchr2 -> reference loop;find_newline -> reference scan (decided separately under C15);core::str::slice_error_fail -> immediate panic;core::str::count::do_count_chars -> panic (unreachable below 32 bytes)"
//   assume="dev profile: LinearLocator's own debug self-check against LineIndex is compiled in and checked too"
loc_harness!(loc_linear_a3, check_linear, 3, 6, [1, 1, 1]);
// @verif name=loc_linear_1e1 props=C13 tier=thorough features=location timeout=2400 fns="LinearLocator::new,LinearLocatorState::init,LinearLocator::locate,LinearLocator::locate_inner,LinearLocatorState::new_line_start,UniversalNewlineIterator::count"
//   bound="all texts <ASCII><U+00E9><ASCII>; two monotone locate() calls plus a look-ahead"
//   stubs="memchr::memrchr2 -> reference loop;find_newline -> reference scan (decided separately under C15);core::str::slice_error_fail -> immediate panic;core::str::count::do_count_chars -> panic (unreachable below 32 bytes)"
//   assume="dev profile: LinearLocator's own debug self-check against LineIndex is compiled in and checked too"
loc_harness!(loc_linear_1e1, check_linear, 4, 7, [1, 12, 1]);
// @verif name=loc_linear2_b11 props=C13 tier=thorough features=location timeout=2400 fns="LinearLocator::new,LinearLocatorState::init,LinearLocator::locate,LinearLocator::locate_inner,LinearLocatorState::new_line_start,UniversalNewlineIterator::count"
//   bound="all texts <BOM><ASCII><ASCII>; every non-decreasing pair of offsets"
//   stubs="memchr::memrchr2 -> reference loop;find_newline -> reference scan (decided separately under C15);core::str::slice_error_fail -> immediate panic;core::str::count::do_count_chars -> panic (unreachable below 32 bytes)"
//   assume="dev profile: LinearLocator's own debug self-check against LineIndex is compiled in and checked too"
loc_harness!(loc_linear2_b11, check_linear_two, 5, 8, [13, 1, 1]);
// @verif name=loc_random_a4 props=C13 tier=quick features=location fns="RandomLocator::new,RandomLocator::locate,RandomLocator::locate_error,RandomLocator::to_source_code"
//   bound="all texts of 4 ASCII bytes, every offset"
//   stubs="core::str::slice_error_fail -> immediate panic;core::str::count::do_count_chars -> panic"
loc_harness!(loc_random_a4, check_random, 4, 7, [1, 1, 1, 1]);
