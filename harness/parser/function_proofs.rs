//! @inject file=parser/src/function.rs package=rustpython-parser mod=verif_function_proofs
//!
//! C04: parameter-list rules. "A parameter without a default after one with a default" is decided for every subset of
//! defaults over signatures of up to 2 positional-only + 2 positional parameters (list lengths enumerated concretely,
//! default presence and ranges symbolic).
use super::*;

fn mk_param(start: u32, has_default: bool) -> ast::ArgWithDefault {
    let range = TextRange::new(TextSize::from(start), TextSize::from(start + 1));
    ast::ArgWithDefault {
        range: Default::default(),
        def: ast::Arg { range, arg: ast::Identifier::new(""), annotation: None, type_comment: None },
        default: if has_default {
            Some(Box::new(ast::Expr::Name(ast::ExprName { range, id: ast::Identifier::new(""), ctx: ast::ExprContext::Load })))
        } else {
            None
        },
    }
}

fn list(n: usize, base: u32, flags: [bool; 2]) -> Vec<ast::ArgWithDefault> {
    match n {
        0 => Vec::new(),
        1 => vec![mk_param(base, flags[0])],
        _ => vec![mk_param(base, flags[0]), mk_param(base + 10, flags[1])],
    }
}

fn check_pos_params(p: usize, a: usize) {
    let base: u32 = kani::any();
    kani::assume(base < 1_000_000);
    let fp: [bool; 2] = kani::any();
    let fa: [bool; 2] = kani::any();
    let lists = (list(p, base, fp), list(a, base + 100, fa));
    let r = validate_pos_params(&lists);
    // reference: the first parameter without a default that follows one with a default, in source order
    let flags = [fp[0], fp[1], fa[0], fa[1]];
    let starts = [base, base + 10, base + 100, base + 110];
    let present = [p >= 1, p >= 2, a >= 1, a >= 2];
    let mut seen_default = false;
    let mut bad: Option<u32> = None;
    for i in 0..4 {
        if present[i] {
            if flags[i] {
                seen_default = true;
            } else if seen_default && bad.is_none() {
                bad = Some(starts[i]);
            }
        }
    }
    match (&r, bad) {
        (Ok(()), None) => {}
        (Err(e), Some(at)) => {
            assert!(matches!(e.error, LexicalErrorType::DefaultArgumentError));
            assert!(u32::from(e.location) == at, "error not located at the first offending parameter");
        }
        (Ok(()), Some(_)) => assert!(false, "non-default parameter after a default one accepted"),
        (Err(_), None) => assert!(false, "valid parameter list rejected"),
    }
    kani::cover!(bad.is_some() || p + a < 2, "offending list reachable");
    std::mem::forget(lists);
    std::mem::forget(r);
}

// @verif name=fn_pos_params props=C04,C03 tier=quick timeout=600 fns="function::validate_pos_params"
//   bound="0..2 positional-only and 0..2 positional parameters (all 9 shapes), every subset carrying defaults, symbolic ranges"
#[kani::proof]
#[kani::unwind(8)]
fn fn_pos_params() {
    for p in 0..3usize {
        for a in 0..3usize {
            check_pos_params(p, a);
        }
    }
}
