//! @inject file=parser/src/lexer.rs package=rustpython-parser mod=verif_lexer_proofs
//!
//! Lexer step lemmas (DESIGN.md section 3), shared by C03, C04, C05, C06, C08, C09, C10.
//! One step of the real lexer from an arbitrary state over an arbitrary continuation: the character stream is a
//! pre-drawn symbolic array (so concrete playback replays the same characters), the dispatch character is concrete.
use super::*;
include!("../common/_stubs.rs");

/// N = capacity of the pre-drawn character array (a harness' unwind bound must exceed it)
pub(super) struct Stream<const N: usize> {
    pub chars: [char; N],
    pub len: usize,
    pub pos: usize,
}
impl<const N: usize> Iterator for Stream<N> {
    type Item = char;
    fn next(&mut self) -> Option<char> {
        if self.pos < self.len {
            let c = self.chars[self.pos];
            self.pos += 1;
            Some(c)
        } else {
            None
        }
    }
}

/// at most `k` arbitrary Unicode characters, then end of input
pub(super) fn any_stream<const N: usize>() -> Stream<N> {
    let chars: [char; N] = kani::any();
    let len: usize = kani::any();
    kani::assume(len <= N);
    Stream { chars, len, pos: 0 }
}

pub(super) fn any_start() -> u32 {
    let s: u32 = kani::any();
    kani::assume(s < (1 << 31));
    s
}

/// A lexer in the state "window = next three characters of the stream, location = start" with the given mode fields.
/// (Built field by field: `Lexer::new` would also skip a BOM, which has its own harness.)
pub(super) fn mk_lexer<const N: usize>(stream: Stream<N>, start: u32, nesting: usize, bol: bool, stack: Vec<IndentationLevel>) -> Lexer<Stream<N>> {
    let mut lx = Lexer {
        window: CharWindow { source: stream, window: [None; 3] },
        at_begin_of_line: bol,
        nesting,
        indentations: Indentations { indent_stack: stack },
        pending: Vec::with_capacity(5),
        location: TextSize::from(start),
    };
    lx.window.slide();
    lx.window.slide();
    lx.window.slide();
    lx
}

pub(super) fn base_stack() -> Vec<IndentationLevel> {
    vec![IndentationLevel::default()]
}

pub(super) fn get<const N: usize>(chars: &[char; N], len: usize, i: usize) -> Option<char> {
    if i < len && i < N { Some(chars[i]) } else { None }
}

/// Inv: after consuming `delta` bytes the window shows exactly the next three characters of the stream.
/// Returns the number of characters consumed.
pub(super) fn check_inv<const N: usize>(lx: &Lexer<Stream<N>>, chars: &[char; N], len: usize, delta: u32) -> usize {
    let mut p = 0usize;
    let mut bytes = 0u32;
    while p < len && bytes < delta {
        bytes += chars[p].len_utf8() as u32;
        p += 1;
    }
    assert!(bytes == delta, "location advanced by whole characters");
    assert!(lx.window[0] == get(chars, len, p));
    assert!(lx.window[1] == get(chars, len, p + 1));
    assert!(lx.window[2] == get(chars, len, p + 2));
    p
}

/// an error location must lie inside [before, after] AND on a character boundary of the consumed text
pub(super) fn check_error_location<const N: usize>(chars: &[char; N], len: usize, start: u32, delta: u32, loc: u32) {
    assert!(loc >= start && loc <= start + delta, "error location outside the step");
    let mut p = 0usize;
    let mut bytes = 0u32;
    while p < len && bytes < loc - start {
        bytes += chars[p].len_utf8() as u32;
        p += 1;
    }
    assert!(bytes == loc - start, "error location inside a multi-byte character");
}

// ------------------------------------------------------------------------------------------------
// L0  next_char
// ------------------------------------------------------------------------------------------------
// @verif name=lex_next_char props=C05,C03,C08,C09 tier=quick fns="Lexer::next_char,CharWindow::slide,TextLen for char"
//   bound="every window of Unicode characters (stream of at most 5 arbitrary characters), every start offset < 2^31"
#[kani::proof]
#[kani::unwind(10)]
fn lex_next_char() {
    let st = any_stream::<5>();
    let (chars, len) = (st.chars, st.len);
    let start = any_start();
    let mut lx = mk_lexer(st, start, 0, false, base_stack());
    let r = lx.next_char();
    let delta = u32::from(lx.location) - start;
    match get(&chars, len, 0) {
        None => {
            assert!(r.is_none() && delta == 0);
        }
        Some('\r') => {
            // CR and CR LF are one line break, reported as '\n', counted with their real byte length
            assert!(r == Some('\n'));
            assert!(delta == if get(&chars, len, 1) == Some('\n') { 2 } else { 1 });
            kani::cover!(delta == 2, "CRLF folded");
        }
        Some(c) => {
            assert!(r == Some(c) && delta == c.len_utf8() as u32);
            kani::cover!(delta == 4, "astral character");
        }
    }
    check_inv(&lx, &chars, len, delta);
    std::mem::forget(lx);
}

// ------------------------------------------------------------------------------------------------
// L1  operators and delimiters: maximal munch against a spelling table written out here
// ------------------------------------------------------------------------------------------------
const OPS: [(&str, u8); 47] = [
    ("=", 0), ("==", 1), ("+", 2), ("+=", 3), ("*", 4), ("*=", 5), ("**", 6), ("**=", 7), ("/", 8), ("/=", 9),
    ("//", 10), ("//=", 11), ("%", 12), ("%=", 13), ("|", 14), ("|=", 15), ("^", 16), ("^=", 17), ("&", 18),
    ("&=", 19), ("-", 20), ("-=", 21), ("->", 22), ("@", 23), ("@=", 24), ("!=", 25), ("~", 26), ("(", 27),
    (")", 28), ("[", 29), ("]", 30), ("{", 31), ("}", 32), (":", 33), (":=", 34), (";", 35), ("<", 36),
    ("<<", 37), ("<<=", 38), ("<=", 39), (">", 40), (">>", 41), (">>=", 42), (">=", 43), (",", 44), (".", 45),
    ("...", 46),
];

fn tok_code(t: &Tok) -> u8 {
    match t {
        Tok::Equal => 0, Tok::EqEqual => 1, Tok::Plus => 2, Tok::PlusEqual => 3, Tok::Star => 4, Tok::StarEqual => 5,
        Tok::DoubleStar => 6, Tok::DoubleStarEqual => 7, Tok::Slash => 8, Tok::SlashEqual => 9, Tok::DoubleSlash => 10,
        Tok::DoubleSlashEqual => 11, Tok::Percent => 12, Tok::PercentEqual => 13, Tok::Vbar => 14, Tok::VbarEqual => 15,
        Tok::CircumFlex => 16, Tok::CircumflexEqual => 17, Tok::Amper => 18, Tok::AmperEqual => 19, Tok::Minus => 20,
        Tok::MinusEqual => 21, Tok::Rarrow => 22, Tok::At => 23, Tok::AtEqual => 24, Tok::NotEqual => 25, Tok::Tilde => 26,
        Tok::Lpar => 27, Tok::Rpar => 28, Tok::Lsqb => 29, Tok::Rsqb => 30, Tok::Lbrace => 31, Tok::Rbrace => 32,
        Tok::Colon => 33, Tok::ColonEqual => 34, Tok::Semi => 35, Tok::Less => 36, Tok::LeftShift => 37,
        Tok::LeftShiftEqual => 38, Tok::LessEqual => 39, Tok::Greater => 40, Tok::RightShift => 41,
        Tok::RightShiftEqual => 42, Tok::GreaterEqual => 43, Tok::Comma => 44, Tok::Dot => 45, Tok::Ellipsis => 46,
        _ => 255,
    }
}

/// the longest spelling in OPS that is a prefix of c0 c1 c2
fn longest_op(c0: char, c1: Option<char>, c2: Option<char>) -> Option<(u8, usize)> {
    let mut best: Option<(u8, usize)> = None;
    let mut i = 0;
    while i < OPS.len() {
        let s = OPS[i].0.as_bytes();
        let m = s.len();
        let ok = s[0] as u32 == c0 as u32
            && (m < 2 || c1.map(|c| c as u32) == Some(s[1] as u32))
            && (m < 3 || c2.map(|c| c as u32) == Some(s[2] as u32));
        if ok && best.map_or(true, |(_, l)| m > l) {
            best = Some((OPS[i].1, m));
        }
        i += 1;
    }
    best
}

fn check_op(c: char) {
    let mut st = any_stream::<4>();
    kani::assume(st.len >= 1);
    st.chars[0] = c;
    let (chars, len) = (st.chars, st.len);
    if c == '.' {
        // '.' followed by a digit starts a number (number lemma)
        kani::assume(!matches!(get(&chars, len, 1), Some('0'..='9')));
    }
    let start = any_start();
    let nesting: usize = kani::any();
    kani::assume(nesting <= 2);
    let bol: bool = kani::any();
    let mut lx = mk_lexer(st, start, nesting, bol, base_stack());
    let r = lx.consume_character(c);
    let delta = u32::from(lx.location) - start;
    let expect = longest_op(c, get(&chars, len, 1), get(&chars, len, 2));
    let opening = matches!(c, '(' | '[' | '{');
    let closing = matches!(c, ')' | ']' | '}');
    match expect {
        None => {
            // only a lone '!' has no spelling
            assert!(c == '!');
            match &r {
                Err(e) => {
                    assert!(matches!(e.error, LexicalErrorType::UnrecognizedToken { tok: '!' }));
                    assert!(u32::from(e.location) == start);
                }
                Ok(()) => assert!(false, "lone '!' accepted"),
            }
            assert!(lx.pending.is_empty());
        }
        Some((code, n)) => {
            assert!(delta == n as u32);
            if closing && nesting == 0 {
                match &r {
                    Err(e) => {
                        assert!(matches!(e.error, LexicalErrorType::NestingError));
                        check_error_location(&chars, len, start, delta, u32::from(e.location));
                    }
                    Ok(()) => assert!(false, "unbalanced closing bracket accepted"),
                }
            } else {
                assert!(r.is_ok());
                assert!(lx.pending.len() == 1);
                let (tok, range) = &lx.pending[0];
                assert!(tok_code(tok) == code);
                assert!(u32::from(range.start()) == start && u32::from(range.end()) == start + n as u32);
                let want_nesting = if opening { nesting + 1 } else if closing { nesting - 1 } else { nesting };
                assert!(lx.nesting == want_nesting);
                assert!(lx.at_begin_of_line == bol);
                kani::cover!(n == 1, "one-character operator");
            }
        }
    }
    check_inv(&lx, &chars, len, delta);
    std::mem::forget(lx);
    std::mem::forget(r);
}

macro_rules! op_harness {
    ($name:ident, [$($c:expr),*]) => {
        #[kani::proof]
        #[kani::unwind(48)]
        fn $name() {
            $( check_op($c); )*
        }
    };
}

// @verif name=lex_op_1 props=C05,C03,C09 tier=quick fns="Lexer::consume_character (=,+,*,/),Lexer::next_char,Lexer::emit"
//   bound="dispatch characters = + * / ; continuation: at most 3 arbitrary Unicode characters then end of input; nesting 0..2; every start < 2^31"
op_harness!(lex_op_1, ['=', '+', '*', '/']);
// @verif name=lex_op_2 props=C05,C03,C09 tier=quick fns="Lexer::consume_character (%,|,^,&,-,@)"
//   bound="dispatch characters % | ^ & - @ ; continuation: at most 3 arbitrary Unicode characters; nesting 0..2; every start < 2^31"
op_harness!(lex_op_2, ['%', '|', '^', '&', '-', '@']);
// @verif name=lex_op_3 props=C05,C03,C04,C09 tier=quick fns="Lexer::consume_character (!,~,:,;,comma),Lexer::eat_single_char"
//   bound="dispatch characters ! ~ : ; , ; continuation: at most 3 arbitrary Unicode characters; every start < 2^31"
op_harness!(lex_op_3, ['!', '~', ':', ';', ',']);
// @verif name=lex_op_4 props=C05,C03,C04,C09 tier=quick fns="Lexer::consume_character (brackets),Lexer::eat_single_char"
//   bound="dispatch characters ( ) [ ] { } ; nesting 0..2; continuation: at most 3 arbitrary Unicode characters"
op_harness!(lex_op_4, ['(', ')', '[', ']', '{', '}']);
// @verif name=lex_op_lt props=C05,C03,C09 tier=quick fns="Lexer::consume_character (<)"
//   bound="dispatch character < ; continuation: at most 3 arbitrary Unicode characters"
op_harness!(lex_op_lt, ['<']);
// @verif name=lex_op_gt props=C05,C03,C09 tier=quick fns="Lexer::consume_character (>)"
//   bound="dispatch character > ; continuation: at most 3 arbitrary Unicode characters"
op_harness!(lex_op_gt, ['>']);
// @verif name=lex_op_dot props=C05,C03,C09 tier=quick fns="Lexer::consume_character (.)"
//   bound="dispatch character . (not followed by a digit); continuation: at most 3 arbitrary Unicode characters"
//   stubs="Lexer::lex_number -> panic (proved unreachable when no digit follows the dot)"
#[kani::proof]
#[kani::unwind(48)]
#[kani::stub(Lexer::lex_number, verif_lex_number_unreachable)]
fn lex_op_dot() {
    check_op('.');
}

/// stands in for `lex_number` where the harness assumes "no digit follows": a SUCCESSFUL run proves it is not called
#[allow(dead_code)]
fn verif_lex_number_unreachable<T: Iterator<Item = char>>(_lx: &mut Lexer<T>) -> LexResult {
    panic!("lex_number reached although no digit follows")
}

// ------------------------------------------------------------------------------------------------
// L2  line breaks, blanks, line continuation, comments
// ------------------------------------------------------------------------------------------------
fn is_blank(c: Option<char>) -> bool {
    matches!(c, Some(' ' | '\t' | '\x0C'))
}

// @verif name=lex_newline props=C05,C03,C08,C09,C10 tier=quick fns="Lexer::consume_character (LF,CR),Lexer::next_char"
//   bound="dispatch characters LF and CR; continuation: at most 3 arbitrary Unicode characters; nesting 0..2; every start < 2^31"
#[kani::proof]
#[kani::unwind(10)]
fn lex_newline() {
    check_newline();
}

// @verif name=lex_newline_full props=C10,C05 tier=quick features=full-lexer fns="Lexer::consume_character (LF,CR) with feature full-lexer"
//   bound="as lex_newline, full-lexer configuration: a NonLogicalNewline token with the exact range inside brackets"
#[cfg(feature = "full-lexer")]
#[kani::proof]
#[kani::unwind(10)]
fn lex_newline_full() {
    check_newline();
}

fn check_newline() {
    for c in ['\n', '\r'] {
        let mut st = any_stream::<4>();
        kani::assume(st.len >= 1);
        st.chars[0] = c;
        let (chars, len) = (st.chars, st.len);
        let start = any_start();
        let nesting: usize = kani::any();
        kani::assume(nesting <= 2);
        let mut lx = mk_lexer(st, start, nesting, false, base_stack());
        let r = lx.consume_character(c);
        assert!(r.is_ok());
        let delta = u32::from(lx.location) - start;
        let crlf = c == '\r' && get(&chars, len, 1) == Some('\n');
        assert!(delta == if crlf { 2 } else { 1 });
        if nesting == 0 {
            // a logical NEWLINE over exactly the break, and the next token starts a line
            assert!(lx.pending.len() == 1 && matches!(lx.pending[0].0, Tok::Newline));
            let range = lx.pending[0].1;
            assert!(u32::from(range.start()) == start && u32::from(range.end()) == start + delta);
            assert!(lx.at_begin_of_line);
        } else {
            // inside brackets: no NEWLINE (full-lexer: a NonLogicalNewline over the break)
            #[cfg(not(feature = "full-lexer"))]
            assert!(lx.pending.is_empty());
            #[cfg(feature = "full-lexer")]
            {
                assert!(lx.pending.len() == 1 && matches!(lx.pending[0].0, Tok::NonLogicalNewline));
                let range = lx.pending[0].1;
                assert!(u32::from(range.start()) == start && u32::from(range.end()) == start + delta);
            }
            assert!(!lx.at_begin_of_line);
        }
        assert!(lx.nesting == nesting);
        check_inv(&lx, &chars, len, delta);
        kani::cover!(crlf && nesting == 0, "CRLF newline");
        std::mem::forget(lx);
    }
}

// @verif name=lex_blanks props=C05,C03,C08,C09 tier=quick fns="Lexer::consume_character (space,tab,form feed)"
//   bound="dispatch characters space, tab, form feed; continuation: at most 5 arbitrary Unicode characters"
#[kani::proof]
#[kani::unwind(10)]
fn lex_blanks() {
    for c in [' ', '\t', '\x0C'] {
        let mut st = any_stream::<6>();
        kani::assume(st.len >= 1);
        st.chars[0] = c;
        let (chars, len) = (st.chars, st.len);
        let start = any_start();
        let bol: bool = kani::any();
        let mut lx = mk_lexer(st, start, 0, bol, base_stack());
        let r = lx.consume_character(c);
        assert!(r.is_ok() && lx.pending.is_empty());
        let delta = u32::from(lx.location) - start;
        let p = check_inv(&lx, &chars, len, delta);
        // consumed: a maximal run of blanks, nothing else
        assert!(p >= 1 && delta == p as u32);
        let i: usize = kani::any();
        kani::assume(i < p);
        assert!(is_blank(get(&chars, len, i)));
        assert!(!is_blank(get(&chars, len, p)));
        assert!(lx.at_begin_of_line == bol && lx.nesting == 0);
        kani::cover!(p == 3, "run of three blanks");
        std::mem::forget(lx);
    }
}

// @verif name=lex_continuation props=C05,C03,C04,C08,C09 tier=quick fns="Lexer::consume_character (backslash)"
//   bound="dispatch character backslash; continuation: at most 4 arbitrary Unicode characters; every start < 2^31"
#[kani::proof]
#[kani::unwind(10)]
fn lex_continuation() {
    let mut st = any_stream::<5>();
    kani::assume(st.len >= 1);
    st.chars[0] = '\\';
    let (chars, len) = (st.chars, st.len);
    let start = any_start();
    let nesting: usize = kani::any();
    kani::assume(nesting <= 2);
    let mut lx = mk_lexer(st, start, nesting, false, base_stack());
    let r = lx.consume_character('\\');
    let delta = u32::from(lx.location) - start;
    let c1 = get(&chars, len, 1);
    let is_break = matches!(c1, Some('\n' | '\r'));
    assert!(lx.pending.is_empty());
    match &r {
        Ok(()) => {
            // backslash + exactly one line break joined, and something follows
            assert!(is_break);
            let crlf = c1 == Some('\r') && get(&chars, len, 2) == Some('\n');
            assert!(delta == if crlf { 3 } else { 2 });
            assert!(lx.window[0].is_some());
            assert!(!lx.at_begin_of_line);
        }
        Err(e) => {
            let loc = u32::from(e.location);
            check_error_location(&chars, len, start, delta, loc);
            if !is_break {
                // anything but a line break after the backslash
                assert!(matches!(e.error, LexicalErrorType::LineContinuationError));
                assert!(delta == 1);
            } else {
                // backslash-newline at the very end of the input: exactly the backslash and ONE line break were consumed
                assert!(matches!(e.error, LexicalErrorType::Eof));
                assert!(lx.window[0].is_none());
                let crlf = c1 == Some('\r') && get(&chars, len, 2) == Some('\n');
                assert!(delta == if crlf { 3 } else { 2 });
            }
        }
    }
    check_inv(&lx, &chars, len, delta);
    kani::cover!(r.is_ok() && delta == 3, "backslash CRLF joined");
    kani::cover!(matches!(&r, Err(e) if matches!(e.error, LexicalErrorType::Eof)), "continuation at end of input");
    std::mem::forget(lx);
    std::mem::forget(r);
}

// @verif name=lex_comment_step props=C05,C03,C08,C09,C10 tier=quick fns="Lexer::consume_character (#),Lexer::lex_comment,Lexer::lex_and_emit_comment"
//   bound="dispatch character #; continuation: at most 4 arbitrary Unicode characters; every start < 2^31"
#[kani::proof]
#[kani::unwind(8)]
#[kani::stub(core::str::slice_error_fail, verif_slice_error_fail)]
fn lex_comment_step() {
    check_comment::<5>();
}

// @verif name=lex_comment_full props=C10,C05 tier=quick features=full-lexer fns="Lexer::lex_comment with feature full-lexer"
//   bound="as lex_comment_step with at most 1 following character, full-lexer configuration: a Comment token with the exact range and text length"
#[cfg(feature = "full-lexer")]
#[kani::proof]
#[kani::unwind(5)]
#[kani::stub(core::str::slice_error_fail, verif_slice_error_fail)]
fn lex_comment_full() {
    check_comment::<2>();
}

fn check_comment<const N: usize>() {
    let mut st = any_stream::<N>();
    kani::assume(st.len >= 1);
    st.chars[0] = '#';
    let (chars, len) = (st.chars, st.len);
    let start = any_start();
    let mut lx = mk_lexer(st, start, 0, false, base_stack());
    let r = lx.consume_character('#');
    assert!(r.is_ok());
    let delta = u32::from(lx.location) - start;
    let p = check_inv(&lx, &chars, len, delta);
    // consumed up to, not including, the line break (or the end of input)
    assert!(p >= 1);
    let i: usize = kani::any();
    kani::assume(i < p);
    assert!(!matches!(get(&chars, len, i), Some('\n' | '\r')));
    assert!(matches!(get(&chars, len, p), None | Some('\n' | '\r')));
    #[cfg(not(feature = "full-lexer"))]
    assert!(lx.pending.is_empty());
    #[cfg(feature = "full-lexer")]
    {
        assert!(lx.pending.len() == 1);
        match &lx.pending[0] {
            (Tok::Comment(text), range) => {
                assert!(u32::from(range.start()) == start && u32::from(range.end()) == start + delta);
                assert!(text.len() == delta as usize);
                assert!(text.as_bytes()[0] == b'#');
            }
            _ => assert!(false, "comment token expected"),
        }
    }
    kani::cover!(p == 1 && len == 2, "comment stops before a line break");
    std::mem::forget(lx);
}

// ------------------------------------------------------------------------------------------------
// L6  indentation
// ------------------------------------------------------------------------------------------------
/// reference comparison of indentation levels: decided only if tabs and spaces do not disagree
fn ref_compare(a: (u32, u32), b: (u32, u32)) -> Option<Ordering> {
    let (at, asp) = a;
    let (bt, bsp) = b;
    if at == bt {
        Some(asp.cmp(&bsp))
    } else if at < bt {
        if asp <= bsp { Some(Ordering::Less) } else { None }
    } else if asp >= bsp {
        Some(Ordering::Greater)
    } else {
        None
    }
}

// @verif name=lex_compare_strict props=C04,C05,C03,C08 tier=quick fns="IndentationLevel::compare_strict"
//   bound="all u32 (tabs, spaces) pairs; plus: scaling all space counts by a common factor 1..16 never changes an outcome (indentation width is layout)"
#[kani::proof]
fn lex_compare_strict() {
    let a = IndentationLevel { tabs: kani::any(), spaces: kani::any() };
    let b = IndentationLevel { tabs: kani::any(), spaces: kani::any() };
    let loc: u32 = kani::any();
    let r = a.compare_strict(&b, TextSize::from(loc));
    let want = ref_compare((a.tabs, a.spaces), (b.tabs, b.spaces));
    match (&r, want) {
        (Ok(o), Some(w)) => assert!(*o == w),
        (Err(e), None) => {
            assert!(matches!(e.error, LexicalErrorType::TabError) && u32::from(e.location) == loc);
        }
        _ => assert!(false, "tab/space ambiguity decided differently from the reference"),
    }
    // antisymmetry
    let r2 = b.compare_strict(&a, TextSize::from(loc));
    match (&r, &r2) {
        (Ok(o), Ok(o2)) => assert!(*o == o2.reverse()),
        (Err(_), Err(_)) => {}
        _ => assert!(false),
    }
    // layout invariance: k-fold wider space indentation gives the same verdict
    let k: u32 = kani::any();
    kani::assume(k >= 1 && k <= 16 && a.spaces < (1 << 20) && b.spaces < (1 << 20));
    let a2 = IndentationLevel { tabs: a.tabs, spaces: a.spaces * k };
    let b2 = IndentationLevel { tabs: b.tabs, spaces: b.spaces * k };
    let r3 = a2.compare_strict(&b2, TextSize::from(loc));
    match (&r, &r3) {
        (Ok(o), Ok(o3)) => assert!(o == o3),
        (Err(_), Err(_)) => {}
        _ => assert!(false, "scaling the indentation width changed the verdict"),
    }
    kani::cover!(r.is_err(), "ambiguous");
    kani::cover!(matches!(r, Ok(Ordering::Greater)) && a.tabs > b.tabs, "deeper by tabs");
    std::mem::forget(r);
    std::mem::forget(r2);
    std::mem::forget(r3);
}

/// symbolic indentation stack of depth 1..=3 satisfying the lexer's invariant:
/// bottom level (0,0); every level strictly greater than the one below
fn any_stack() -> (Vec<IndentationLevel>, usize, [(u32, u32); 3]) {
    let depth: usize = kani::any();
    kani::assume(depth >= 1 && depth <= 3);
    stack_of_depth(depth)
}

/// same with a concrete depth (keeps the Vec length concrete for CBMC)
fn stack_of_depth(depth: usize) -> (Vec<IndentationLevel>, usize, [(u32, u32); 3]) {
    let l1 = (kani::any::<u32>(), kani::any::<u32>());
    let l2 = (kani::any::<u32>(), kani::any::<u32>());
    kani::assume(l1.0 < 1000 && l1.1 < 1000 && l2.0 < 1000 && l2.1 < 1000);
    kani::assume(ref_compare(l1, (0, 0)) == Some(Ordering::Greater));
    kani::assume(ref_compare(l2, l1) == Some(Ordering::Greater));
    let levels = [(0, 0), l1, l2];
    let mut v = Vec::with_capacity(4);
    v.push(IndentationLevel { tabs: 0, spaces: 0 });
    if depth >= 2 {
        v.push(IndentationLevel { tabs: l1.0, spaces: l1.1 });
    }
    if depth >= 3 {
        v.push(IndentationLevel { tabs: l2.0, spaces: l2.1 });
    }
    (v, depth, levels)
}

fn count_kind(pending: &Vec<Spanned>, f: fn(&Tok) -> bool) -> usize {
    let mut n = 0;
    for (t, _) in pending.iter() {
        if f(t) {
            n += 1;
        }
    }
    n
}

// @verif name=lex_indentation props=C05,C03,C04,C08,C09,C10 tier=quick timeout=900 fns="Lexer::handle_indentations,Lexer::eat_indentation,Lexer::lex_comment,Indentations::push,Indentations::pop,Indentations::current,IndentationLevel::compare_strict"
//   bound="at begin of line; continuation: at most 3 arbitrary Unicode characters; indentation stack of depth 1..3 (levels < 1000) satisfying the stack invariant; nesting 0..2; every start < 2^31"
#[kani::proof]
#[kani::unwind(6)]
#[kani::stub(core::str::slice_error_fail, verif_slice_error_fail)]
fn lex_indentation() {
    check_indentation::<3>();
}

// @verif name=lex_indentation_k4 props=C05,C03,C04,C08 tier=thorough timeout=2400 fns="Lexer::handle_indentations,Lexer::eat_indentation"
//   bound="as lex_indentation with at most 4 arbitrary following characters"
#[kani::proof]
#[kani::unwind(7)]
#[kani::stub(core::str::slice_error_fail, verif_slice_error_fail)]
fn lex_indentation_k4() {
    check_indentation::<4>();
}

// @verif name=lex_indentation_full props=C10,C05 tier=off timeout=2400 features=full-lexer fns="Lexer::handle_indentations,Lexer::eat_indentation with feature full-lexer"
//   bound="as lex_indentation with at most 1 following character, full-lexer configuration (comments and blank-line breaks become tokens; INDENT/DEDENT decisions unchanged)"
#[cfg(feature = "full-lexer")]
#[kani::proof]
#[kani::unwind(4)]
#[kani::stub(core::str::slice_error_fail, verif_slice_error_fail)]
fn lex_indentation_full() {
    check_indentation::<1>();
}

fn check_indentation<const N: usize>() {
    let st = any_stream::<N>();
    let (chars, len) = (st.chars, st.len);
    let start = any_start();
    let nesting: usize = kani::any();
    kani::assume(nesting <= 2);
    let (stack, depth, levels) = any_stack();
    let mut lx = mk_lexer(st, start, nesting, true, stack);
    let r = lx.handle_indentations();
    let delta = u32::from(lx.location) - start;
    let p = check_inv(&lx, &chars, len, delta);

    // reference scan of the indentation prefix: (spaces, tabs) since the last reset, and whether a tab followed a space
    let mut spaces = 0u32;
    let mut tabs = 0u32;
    let mut tab_after_space = false;
    let mut in_comment = false;
    let mut i = 0usize;
    while i < p {
        let c = chars[i];
        if in_comment {
            if c == '\n' || c == '\r' {
                in_comment = false;
                spaces = 0;
                tabs = 0;
            }
        } else if c == ' ' {
            spaces += 1;
        } else if c == '\t' {
            tabs += 1;
        } else if c == '#' {
            in_comment = true;
            spaces = 0;
            tabs = 0;
        } else {
            // only form feeds and line breaks may be consumed besides
            assert!(c == '\x0C' || c == '\n' || c == '\r');
            spaces = 0;
            tabs = 0;
        }
        i += 1;
    }
    let next = get(&chars, len, p);
    if matches!(next, Some('\t')) && spaces > 0 && !in_comment {
        tab_after_space = true;
    }
    let indents = count_kind(&lx.pending, |t| matches!(t, Tok::Indent));
    let dedents = count_kind(&lx.pending, |t| matches!(t, Tok::Dedent));
    #[cfg(not(feature = "full-lexer"))]
    assert!(lx.pending.len() == indents + dedents);
    #[cfg(feature = "full-lexer")]
    {
        // trivia tokens come first, INDENT/DEDENT after them; nothing else is emitted
        let trivia = count_kind(&lx.pending, |t| matches!(t, Tok::Comment(_) | Tok::NonLogicalNewline));
        assert!(lx.pending.len() == indents + dedents + trivia);
        let mut seen_layout = false;
        for (t, range) in lx.pending.iter() {
            if matches!(t, Tok::Indent | Tok::Dedent) {
                seen_layout = true;
            } else {
                assert!(!seen_layout);
                assert!(u32::from(range.start()) >= start && u32::from(range.end()) <= start + delta);
            }
        }
    }
    match &r {
        Err(e) => {
            let loc = u32::from(e.location);
            check_error_location(&chars, len, start, delta, loc);
            match e.error {
                LexicalErrorType::TabsAfterSpaces => assert!(tab_after_space),
                LexicalErrorType::TabError | LexicalErrorType::IndentationError => {
                    assert!(nesting == 0 && !tab_after_space);
                }
                _ => assert!(false, "unexpected error kind from indentation handling"),
            }
        }
        Ok(()) => {
            assert!(!tab_after_space);
            // stopped at a character that starts a token, or at the end of input
            assert!(!matches!(next, Some(' ' | '\t' | '\x0C' | '\n' | '\r' | '#')));
            if next.is_none() {
                spaces = 0;
                tabs = 0;
            }
            assert!(lx.at_begin_of_line == next.is_none());
            let new_depth = lx.indentations.indent_stack.len();
            if nesting != 0 {
                assert!(indents == 0 && dedents == 0 && new_depth == depth);
            } else {
                let cur = levels[depth - 1];
                match ref_compare((tabs, spaces), cur) {
                    Some(Ordering::Equal) => assert!(indents == 0 && dedents == 0 && new_depth == depth),
                    Some(Ordering::Greater) => {
                        assert!(indents == 1 && dedents == 0 && new_depth == depth + 1);
                        let top = lx.indentations.indent_stack[depth];
                        assert!(top.tabs == tabs && top.spaces == spaces);
                        // the INDENT token covers the indentation whitespace, ending where the first token starts
                        let last = lx.pending.len() - 1;
                        let range = lx.pending[last].1;
                        assert!(matches!(lx.pending[last].0, Tok::Indent));
                        assert!(u32::from(range.end()) == start + delta);
                        assert!(u32::from(range.start()) == start + delta - spaces - tabs);
                        assert!(u32::from(range.start()) >= start);
                    }
                    Some(Ordering::Less) => {
                        // popped down to an equal level
                        assert!(indents == 0 && dedents >= 1 && new_depth + dedents == depth);
                        let lvl = levels[new_depth - 1];
                        assert!(ref_compare((tabs, spaces), lvl) == Some(Ordering::Equal));
                        let last = lx.pending.len() - 1;
                        let range = lx.pending[last].1;
                        assert!(matches!(lx.pending[last].0, Tok::Dedent));
                        assert!(range.is_empty() && u32::from(range.start()) == start + delta);
                    }
                    None => assert!(false, "ambiguous indentation accepted"),
                }
            }
        }
    }
    kani::cover!(r.is_ok() && indents == 1, "indent");
    kani::cover!(r.is_ok() && dedents == 2, "double dedent");
    kani::cover!(matches!(&r, Err(e) if matches!(e.error, LexicalErrorType::IndentationError)), "dedent to unknown level");
    kani::cover!(matches!(&r, Err(e) if matches!(e.error, LexicalErrorType::TabsAfterSpaces)), "tab after space");
    std::mem::forget(lx);
    std::mem::forget(r);
}

// ------------------------------------------------------------------------------------------------
// L7  end of input
// ------------------------------------------------------------------------------------------------
// @verif name=lex_eof props=C05,C03,C04,C09 tier=quick fns="Lexer::consume_normal (end of input branch),Indentations::pop,Indentations::is_empty"
//   bound="empty remaining input; indentation stack depth 1..3; nesting 0..2; both at_begin_of_line values; every start < 2^31"
#[kani::proof]
#[kani::unwind(6)]
fn lex_eof() {
    // the finite configuration (stack depth, at_begin_of_line, inside brackets) is enumerated concretely so that the
    // number of pushed tokens is a constant for CBMC; offsets and indentation levels stay symbolic
    for depth in 1..=3 {
        for bol in [false, true] {
            for nesting in [0usize, 1] {
                check_eof(depth, bol, nesting);
            }
        }
    }
}

fn check_eof(depth: usize, bol: bool, nesting: usize) {
    // concretely empty input (a merely assumed-empty stream would make CBMC explore every token kind)
    let st = Stream::<1> { chars: ['a'], len: 0, pos: 0 };
    let start = any_start();
    let (stack, depth, _levels) = stack_of_depth(depth);
    let mut lx = mk_lexer(st, start, nesting, bol, stack);
    let r = lx.consume_normal();
    assert!(u32::from(lx.location) == start);
    match &r {
        Err(e) => {
            assert!(nesting > 0);
            assert!(matches!(e.error, LexicalErrorType::Eof) && u32::from(e.location) == start);
        }
        Ok(()) => {
            assert!(nesting == 0);
            // optional empty NEWLINE, one DEDENT per open level, EndOfFile: all empty ranges at the end
            let want = (!bol) as usize + (depth - 1) + 1;
            assert!(lx.pending.len() == want);
            let mut i = 0usize;
            for (tok, range) in lx.pending.iter() {
                assert!(range.is_empty() && u32::from(range.start()) == start);
                if !bol && i == 0 {
                    assert!(matches!(tok, Tok::Newline));
                } else if i + 1 == want {
                    assert!(matches!(tok, Tok::EndOfFile));
                } else {
                    assert!(matches!(tok, Tok::Dedent));
                }
                i += 1;
            }
            assert!(lx.indentations.indent_stack.len() == 1 && lx.at_begin_of_line);
            kani::cover!(want >= 2, "more than the end-of-file token");
        }
    }
    kani::cover!(r.is_err() || nesting == 0, "reached");
    std::mem::forget(lx);
    std::mem::forget(r);
}

// ------------------------------------------------------------------------------------------------
// L8  characters that begin no token
// ------------------------------------------------------------------------------------------------
#[allow(dead_code)]
fn verif_lex_string_unreachable<T: Iterator<Item = char>>(_lx: &mut Lexer<T>, _k: StringKind) -> LexResult {
    panic!("lex_string reached")
}

// @verif name=lex_unrecognized props=C05,C03,C04,C09 tier=quick timeout=900 fns="Lexer::consume_character (fall-through arm),unic_emoji_char::is_emoji_presentation"
//   bound="every Unicode scalar that is not an ASCII letter/digit/underscore, quote, operator, blank, line break, backslash or #; 2 arbitrary following characters; every start < 2^31"
//   stubs="Lexer::lex_number, Lexer::lex_string -> panic (proved unreachable for these characters)"
#[kani::proof]
#[kani::unwind(12)]
#[kani::stub(Lexer::lex_number, verif_lex_number_unreachable)]
#[kani::stub(Lexer::lex_string, verif_lex_string_unreachable)]
fn lex_unrecognized() {
    let mut st = any_stream::<3>();
    kani::assume(st.len >= 1);
    let c = st.chars[0];
    kani::assume(!matches!(c, '0'..='9' | '#' | '"' | '\'' | '=' | '+' | '*' | '/' | '%' | '|' | '^' | '&' | '-' | '@' | '!' | '~'
        | '(' | ')' | '[' | ']' | '{' | '}' | ':' | ';' | '<' | '>' | ',' | '.' | '\n' | '\r' | ' ' | '\t' | '\x0C' | '\\'));
    let (chars, len) = (st.chars, st.len);
    let start = any_start();
    let mut lx = mk_lexer(st, start, 0, false, base_stack());
    let r = lx.consume_character(c);
    let delta = u32::from(lx.location) - start;
    assert!(delta == c.len_utf8() as u32);
    check_inv(&lx, &chars, len, delta);
    match &r {
        Ok(()) => {
            // emoji-presentation characters are accepted as one-character names
            assert!(is_emoji_presentation(c));
            assert!(lx.pending.len() == 1);
            match &lx.pending[0] {
                (Tok::Name { name }, range) => {
                    assert!(name.len() == c.len_utf8() && name.chars().next() == Some(c));
                    assert!(u32::from(range.start()) == start && u32::from(range.end()) == start + delta);
                }
                _ => assert!(false, "name token expected"),
            }
            kani::cover!(true, "emoji name");
        }
        Err(e) => {
            assert!(!is_emoji_presentation(c));
            assert!(matches!(e.error, LexicalErrorType::UnrecognizedToken { tok } if tok == c));
            let loc = u32::from(e.location);
            check_error_location(&chars, len, start, delta, loc);
            assert!(lx.pending.is_empty());
            kani::cover!(delta == 3, "unrecognized 3-byte character");
        }
    }
    std::mem::forget(lx);
    std::mem::forget(r);
}

// ------------------------------------------------------------------------------------------------
// Lexer::new: window fill and BOM skip
// ------------------------------------------------------------------------------------------------
// @verif name=lex_new_bom props=C05,C03,C08,C09 tier=quick fns="Lexer::new,CharWindow::new,CharWindow::slide"
//   bound="stream of at most 5 arbitrary Unicode characters; every start < 2^31"
#[kani::proof]
#[kani::unwind(10)]
fn lex_new_bom() {
    let st = any_stream::<5>();
    let (chars, len) = (st.chars, st.len);
    let start = any_start();
    let lx = Lexer::new(st, TextSize::from(start));
    let bom = get(&chars, len, 0) == Some('\u{feff}');
    let delta = u32::from(lx.location) - start;
    // a leading BOM is skipped (3 bytes) and nothing else; only the first character is ever treated as a BOM
    assert!(delta == if bom { 3 } else { 0 });
    check_inv(&lx, &chars, len, delta);
    assert!(lx.at_begin_of_line && lx.nesting == 0 && lx.pending.is_empty());
    assert!(lx.indentations.indent_stack.len() == 1);
    kani::cover!(bom && len == 5, "BOM skipped");
    std::mem::forget(lx);
}
