//! @inject file=parser/src/parser.rs package=rustpython-parser mod=verif_parser_proofs
//!
//! C03(d) / C04 / C09: every LALRPOP error variant becomes a ParseError carrying the same offset, with the documented
//! kind ("expected an indented block" mapping included). One call per variant (variants concrete, offsets symbolic).
use super::*;

fn any_off() -> u32 {
    kani::any()
}

// @verif name=prs_error_mapping props=C03,C04,C09 tier=quick fns="parser::parse_error_from_lalrpop,ParseErrorType::is_indentation_error,ParseErrorType::is_tab_error"
//   bound="each of the five LALRPOP error variants, every u32 offset; expected-token lists empty, [Indent], [Indent, x]"
#[kani::proof]
#[kani::unwind(12)]
fn prs_error_mapping() {
    // InvalidToken
    let o = any_off();
    let e = parse_error_from_lalrpop(LalrpopError::InvalidToken { location: TextSize::from(o) }, "");
    assert!(matches!(e.error, ParseErrorType::Eof) && u32::from(e.offset) == o);
    assert!(!e.error.is_indentation_error() && !e.error.is_tab_error());
    std::mem::forget(e);
    // ExtraToken
    let o = any_off();
    let end = any_off();
    let e = parse_error_from_lalrpop(
        LalrpopError::ExtraToken { token: (TextSize::from(o), Tok::Comma, TextSize::from(end)) },
        "",
    );
    assert!(matches!(e.error, ParseErrorType::ExtraToken(Tok::Comma)) && u32::from(e.offset) == o);
    std::mem::forget(e);
    // User (lexical error passed through with its own location)
    let o = any_off();
    let e = parse_error_from_lalrpop(
        LalrpopError::User { error: LexicalError { error: LexicalErrorType::TabError, location: TextSize::from(o) } },
        "",
    );
    assert!(matches!(e.error, ParseErrorType::Lexical(LexicalErrorType::TabError)) && u32::from(e.offset) == o);
    assert!(e.error.is_tab_error() && !e.error.is_indentation_error());
    std::mem::forget(e);
    let o = any_off();
    let e = parse_error_from_lalrpop(
        LalrpopError::User { error: LexicalError { error: LexicalErrorType::TabsAfterSpaces, location: TextSize::from(o) } },
        "",
    );
    assert!(e.error.is_tab_error() && u32::from(e.offset) == o);
    std::mem::forget(e);
    // UnrecognizedToken: offset = start of the token; an unexpected Indent is an indentation error
    // (the token's END is an independent symbolic value: the reported offset must be its START)
    let o = any_off();
    let end = any_off();
    let e = parse_error_from_lalrpop(
        LalrpopError::UnrecognizedToken { token: (TextSize::from(o), Tok::Indent, TextSize::from(end)), expected: Vec::new() },
        "",
    );
    assert!(matches!(&e.error, ParseErrorType::UnrecognizedToken(Tok::Indent, None)) && u32::from(e.offset) == o);
    assert!(e.error.is_indentation_error());
    std::mem::forget(e);
    let o = any_off();
    let end = any_off();
    let e = parse_error_from_lalrpop(
        LalrpopError::UnrecognizedToken { token: (TextSize::from(o), Tok::Comma, TextSize::from(end)), expected: vec![String::from("Indent")] },
        "",
    );
    assert!(matches!(&e.error, ParseErrorType::UnrecognizedToken(Tok::Comma, Some(x)) if x.len() == 6) && u32::from(e.offset) == o);
    assert!(e.error.is_indentation_error());
    std::mem::forget(e);
    // UnrecognizedEof: "expected an indented block" iff Indent is the only expected token
    let o = any_off();
    let e = parse_error_from_lalrpop(
        LalrpopError::UnrecognizedEof { location: TextSize::from(o), expected: vec![String::from("Indent")] },
        "",
    );
    assert!(matches!(e.error, ParseErrorType::Lexical(LexicalErrorType::IndentationError)) && u32::from(e.offset) == o);
    assert!(e.error.is_indentation_error());
    std::mem::forget(e);
    let o = any_off();
    let e = parse_error_from_lalrpop(LalrpopError::UnrecognizedEof { location: TextSize::from(o), expected: Vec::new() }, "");
    assert!(matches!(e.error, ParseErrorType::Eof) && u32::from(e.offset) == o);
    kani::cover!(o == u32::MAX, "offset at the top of the range");
    std::mem::forget(e);
}
