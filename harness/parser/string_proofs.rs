//! @inject file=parser/src/string.rs package=rustpython-parser mod=verif_string_proofs
//!
//! C06 / C03(c): escape decoding kernels of the string parser against a reference decoder written from the
//! language reference. The escape letter is concrete per harness, the digits / following characters are symbolic.
use super::*;
include!("../common/_textgen.rs");
include!("../common/_stubs.rs");

fn kind_of(i: u8) -> StringKind {
    match i {
        0 => StringKind::String,
        1 => StringKind::FString,
        2 => StringKind::Bytes,
        3 => StringKind::Unicode,
        _ => StringKind::String,
    }
}

fn hexval(b: u8) -> Option<u32> {
    match b {
        b'0'..=b'9' => Some((b - b'0') as u32),
        b'a'..=b'f' => Some((b - b'a') as u32 + 10),
        b'A'..=b'F' => Some((b - b'A') as u32 + 10),
        _ => None,
    }
}

/// body = the characters after the backslash (first one = the concrete escape letter)
fn run_escape(body: &[u8], kind: StringKind, start: u32) -> (Result<String, LexicalError>, u32) {
    let text = unsafe { std::str::from_utf8_unchecked(body) };
    let mut p = StringParser::new(text, kind, false, TextSize::from(start), TextSize::from(start + 100));
    let before = u32::from(p.get_pos());
    let r = p.parse_escaped_char();
    let consumed = u32::from(p.get_pos()) - before;
    (r, consumed)
}

fn check_hex_escape<const N: usize>(letter: u8, digits: usize) {
    // body = letter + `digits` symbolic ASCII characters + one trailing symbolic ASCII character
    let mut body = [0u8; N];
    body[0] = letter;
    let mut i = 1;
    while i < N {
        let b: u8 = kani::any();
        kani::assume(b < 0x80);
        body[i] = b;
        i += 1;
    }
    let k: u8 = kani::any();
    kani::assume(k < 4);
    let kind = kind_of(k);
    let start: u32 = kani::any();
    kani::assume(start < (1 << 30));
    let (r, consumed) = run_escape(&body, kind, start);
    let text_only = letter != b'x';
    if text_only && k == 2 {
        // \u and \U are not escapes in bytes literals: kept verbatim, backslash included
        match &r {
            Ok(s) => assert!(s.len() == 2 && s.as_bytes()[0] == b'\\' && s.as_bytes()[1] == letter && consumed == 1),
            Err(_) => assert!(false),
        }
        std::mem::forget(r);
        return;
    }
    let mut value: u32 = 0;
    let mut all_hex = true;
    let mut j = 0;
    while j < digits {
        match hexval(body[1 + j]) {
            Some(d) => value = (value << 4) | d,
            None => {
                if all_hex {
                    all_hex = false;
                }
            }
        }
        j += 1;
    }
    match &r {
        Ok(s) => {
            assert!(all_hex, "escape with a non-hex digit accepted");
            assert!(consumed == 1 + digits as u32);
            let want = if (0xD800..=0xDFFF).contains(&value) { 0xFFFD } else { value };
            assert!(want <= 0x10FFFF);
            let c = s.chars().next();
            assert!(c.map(|c| c as u32) == Some(want) && s.len() == char::from_u32(want).unwrap().len_utf8());
            kani::cover!(value >= 0x80, "non-ASCII value");
            kani::cover!(digits < 4 || (want == 0xFFFD && value != 0xFFFD), "lone surrogate replaced (4+ digits)");
            kani::cover!(digits < 8 || value > 0xFFFF, "astral value (8 digits)");
        }
        Err(e) => {
            // rejected: a non-hex digit, or a value above U+10FFFF
            assert!(!all_hex || value > 0x10FFFF);
            assert!(matches!(e.error, LexicalErrorType::UnicodeError));
            let loc = u32::from(e.location);
            assert!(loc >= start && loc <= start + 100);
            kani::cover!(!all_hex, "non-hex digit rejected");
            kani::cover!(digits < 8 || all_hex, "value above U+10FFFF rejected (8 digits)");
        }
    }
    std::mem::forget(r);
}

// @verif name=str_escape_x props=C06,C03 tier=quick fns="StringParser::parse_escaped_char,StringParser::parse_unicode_literal(2),StringParser::next_char"
//   bound="\\x followed by 2 symbolic ASCII characters and one more; all four non-raw kinds; every start offset < 2^30 (all 256 \\xhh values in one query)"
#[kani::proof]
#[kani::unwind(8)]
#[kani::stub(core::str::slice_error_fail, verif_slice_error_fail)]
fn str_escape_x() {
    check_hex_escape::<4>(b'x', 2);
}

// @verif name=str_escape_u props=C06,C03 tier=off fns="StringParser::parse_escaped_char,StringParser::parse_unicode_literal(4)"
//   bound="\\u followed by 4 symbolic ASCII characters and one more (all 65 536 \\uXXXX values in one query); text and bytes kinds"
#[kani::proof]
#[kani::unwind(10)]
#[kani::stub(core::str::slice_error_fail, verif_slice_error_fail)]
fn str_escape_u() {
    check_hex_escape::<6>(b'u', 4);
}

// @verif name=str_escape_big_u props=C06,C03 tier=off timeout=600 fns="StringParser::parse_escaped_char,StringParser::parse_unicode_literal(8)"
//   bound="\\U followed by 8 symbolic ASCII characters and one more (all 2^32 \\UXXXXXXXX values in one query); text and bytes kinds"
#[kani::proof]
#[kani::unwind(14)]
#[kani::stub(core::str::slice_error_fail, verif_slice_error_fail)]
fn str_escape_big_u() {
    check_hex_escape::<10>(b'U', 8);
}

// @verif name=str_escape_octal props=C06,C03 tier=off fns="StringParser::parse_escaped_char,StringParser::parse_octet"
//   bound="backslash + octal digit + 3 symbolic ASCII characters (all 1-3 digit octal escapes and what follows them)"
#[kani::proof]
#[kani::unwind(8)]
#[kani::stub(core::str::slice_error_fail, verif_slice_error_fail)]
fn str_escape_octal() {
    let mut body = [0u8; 4];
    let d0: u8 = kani::any();
    kani::assume(d0 >= b'0' && d0 <= b'7');
    body[0] = d0;
    let mut i = 1;
    while i < 4 {
        let b: u8 = kani::any();
        kani::assume(b < 0x80);
        body[i] = b;
        i += 1;
    }
    let k: u8 = kani::any();
    kani::assume(k < 4);
    let start: u32 = kani::any();
    kani::assume(start < (1 << 30));
    let (r, consumed) = run_escape(&body, kind_of(k), start);
    // reference: up to three octal digits
    let isoct = |b: u8| b >= b'0' && b <= b'7';
    let mut value = (d0 - b'0') as u32;
    let mut n = 1u32;
    if isoct(body[1]) {
        value = value * 8 + (body[1] - b'0') as u32;
        n = 2;
        if isoct(body[2]) {
            value = value * 8 + (body[2] - b'0') as u32;
            n = 3;
        }
    }
    match &r {
        Ok(s) => {
            assert!(consumed == n);
            assert!(s.chars().next().map(|c| c as u32) == Some(value) && s.chars().count() == 1);
            kani::cover!(n == 3 && value > 0o377, "octal value above 255");
            kani::cover!(n == 1, "single digit");
        }
        Err(_) => assert!(false, "octal escape rejected"),
    }
    std::mem::forget(r);
}

// @verif name=str_escape_simple props=C06,C03,C04 tier=off fns="StringParser::parse_escaped_char (one-character escapes, unknown escapes, backslash-newline, end of input)"
//   bound="backslash + any ASCII character that is not a digit or one of x u U N, followed by one symbolic ASCII character; all four non-raw kinds"
#[kani::proof]
#[kani::unwind(6)]
#[kani::stub(core::str::slice_error_fail, verif_slice_error_fail)]
fn str_escape_simple() {
    let c: u8 = kani::any();
    kani::assume(c < 0x80 && !(c >= b'0' && c <= b'7') && c != b'x' && c != b'u' && c != b'U' && c != b'N');
    let f: u8 = kani::any();
    kani::assume(f < 0x80);
    let body = [c, f];
    let k: u8 = kani::any();
    kani::assume(k < 4);
    let start: u32 = kani::any();
    kani::assume(start < (1 << 30));
    let (r, consumed) = run_escape(&body, kind_of(k), start);
    let simple: Option<u8> = match c {
        b'\\' => Some(b'\\'),
        b'\'' => Some(b'\''),
        b'"' => Some(b'"'),
        b'a' => Some(7),
        b'b' => Some(8),
        b'f' => Some(12),
        b'n' => Some(10),
        b'r' => Some(13),
        b't' => Some(9),
        b'v' => Some(11),
        _ => None,
    };
    match &r {
        Ok(s) => {
            assert!(consumed == 1);
            if let Some(v) = simple {
                assert!(s.len() == 1 && s.as_bytes()[0] == v);
            } else if c == b'\n' {
                // backslash-newline: the line join disappears
                assert!(s.is_empty());
                kani::cover!(true, "line join");
            } else {
                // unknown escapes are kept verbatim, backslash included
                assert!(s.len() == 2 && s.as_bytes()[0] == b'\\' && s.as_bytes()[1] == c);
                kani::cover!(c == b'8', "digit 8 is not octal");
            }
        }
        Err(_) => assert!(false, "one-character escape rejected"),
    }
    std::mem::forget(r);
}

// @verif name=str_kind_prefix props=C06 tier=quick fns="StringKind::try_from(char),StringKind::try_from([char;2]),StringKind::prefix_len,StringKind::is_raw,StringKind::is_any_bytes"
//   bound="every Unicode scalar / every pair of scalars (loop-free): prefix recognition in any case and order"
//   stubs="alloc::fmt::format -> empty string (error message text only)"
#[kani::proof]
#[kani::stub(alloc::fmt::format, verif_fmt_format)]
fn str_kind_prefix() {
    let c: char = kani::any();
    let low = |c: char| if c.is_ascii_uppercase() { c.to_ascii_lowercase() } else { c };
    let r1 = StringKind::try_from(c);
    match (&r1, low(c)) {
        (Ok(StringKind::RawString), 'r') | (Ok(StringKind::FString), 'f') | (Ok(StringKind::Unicode), 'u') | (Ok(StringKind::Bytes), 'b') => {}
        (Ok(_), _) => assert!(false, "wrong kind for a one-letter prefix"),
        (Err(_), l) => assert!(!matches!(l, 'r' | 'f' | 'u' | 'b') || !c.is_ascii()),
    }
    let d: char = kani::any();
    let r2 = StringKind::try_from([c, d]);
    let (lc, ld) = (low(c), low(d));
    let ascii = c.is_ascii() && d.is_ascii();
    match &r2 {
        Ok(StringKind::RawFString) => assert!(ascii && ((lc == 'r' && ld == 'f') || (lc == 'f' && ld == 'r'))),
        Ok(StringKind::RawBytes) => assert!(ascii && ((lc == 'r' && ld == 'b') || (lc == 'b' && ld == 'r'))),
        Ok(_) => assert!(false, "wrong kind for a two-letter prefix"),
        Err(_) => assert!(!(ascii && ((lc == 'r' && (ld == 'f' || ld == 'b')) || (ld == 'r' && (lc == 'f' || lc == 'b'))))),
    }
    if let Ok(k) = &r1 {
        assert!(u32::from(k.prefix_len()) == 1);
        assert!(k.is_raw() == (lc == 'r') && k.is_any_bytes() == (lc == 'b'));
    }
    if let Ok(k) = &r2 {
        assert!(u32::from(k.prefix_len()) == 2 && k.is_raw());
    }
    kani::cover!(matches!(r2, Ok(StringKind::RawBytes)) && c == 'B', "Br prefix");
    kani::cover!(r1.is_err(), "not a prefix");
    std::mem::forget(r1);
    std::mem::forget(r2);
}

/// direct call of the digit accumulator (returns a char: no String is built)
fn check_unicode_literal<const N: usize>() {
    let mut body = [0u8; N];
    let mut i = 0;
    while i < N {
        let b: u8 = kani::any();
        kani::assume(b < 0x80);
        body[i] = b;
        i += 1;
    }
    let text = unsafe { std::str::from_utf8_unchecked(&body) };
    let start: u32 = kani::any();
    kani::assume(start < (1 << 30));
    let mut p = StringParser::new(text, StringKind::String, false, TextSize::from(start), TextSize::from(start + 100));
    let before = u32::from(p.get_pos());
    let r = p.parse_unicode_literal(N);
    let consumed = u32::from(p.get_pos()) - before;
    let mut value: u64 = 0;
    let mut all_hex = true;
    let mut j = 0;
    while j < N {
        match hexval(body[j]) {
            Some(d) => value = (value << 4) | d as u64,
            None => all_hex = false,
        }
        j += 1;
    }
    match &r {
        Ok(c) => {
            assert!(all_hex, "escape with a non-hex digit accepted");
            assert!(consumed == N as u32);
            let want = if (0xD800..=0xDFFF).contains(&value) { 0xFFFD } else { value };
            assert!(want <= 0x10FFFF && *c as u64 == want);
            kani::cover!(value == 0xE000, "first code point after the surrogates");
            kani::cover!(want == 0xFFFD && value != 0xFFFD, "lone surrogate replaced");
            kani::cover!(N < 8 || value > 0xFFFF, "astral value");
        }
        Err(e) => {
            assert!(!all_hex || value > 0x10FFFF);
            assert!(matches!(e.error, LexicalErrorType::UnicodeError));
            let loc = u32::from(e.location);
            assert!(loc >= start && loc <= start + 100);
            kani::cover!(N < 8 || all_hex, "value above U+10FFFF rejected");
        }
    }
    std::mem::forget(r);
}

// @verif name=str_unicode_literal_4 props=C06,C03 tier=quick timeout=600 fns="StringParser::parse_unicode_literal(4),StringParser::next_char"
//   bound="4 symbolic ASCII characters: all 65 536 \\uXXXX values (surrogates -> U+FFFD) and every non-hex spelling, every start offset < 2^30"
#[kani::proof]
#[kani::unwind(7)]
#[kani::stub(core::str::slice_error_fail, verif_slice_error_fail)]
fn str_unicode_literal_4() {
    check_unicode_literal::<4>();
}

// @verif name=str_unicode_literal_8 props=C06,C03 tier=quick timeout=600 fns="StringParser::parse_unicode_literal(8)"
//   bound="8 symbolic ASCII characters: all 2^32 \\UXXXXXXXX values (above U+10FFFF rejected, no arithmetic overflow) and every non-hex spelling"
#[kani::proof]
#[kani::unwind(11)]
#[kani::stub(core::str::slice_error_fail, verif_slice_error_fail)]
fn str_unicode_literal_8() {
    check_unicode_literal::<8>();
}

/// stands in for `u32::from_str_radix` (core's generic integer parser): plain positional evaluation of the digits
#[allow(dead_code)]
fn verif_u32_from_str_radix(src: &str, radix: u32) -> Result<u32, std::num::ParseIntError> {
    let mut v: u32 = 0;
    let mut ok = !src.is_empty();
    for b in src.bytes() {
        let d = (b as u32).wrapping_sub('0' as u32);
        if d < radix && d < 10 {
            v = v * radix + d;
        } else {
            ok = false;
        }
    }
    if ok { Ok(v) } else { "x".parse::<u32>() }
}

// @verif name=str_octet props=C06,C03 tier=off timeout=600 fns="StringParser::parse_octet"
//   stubs="u32::from_str_radix -> positional evaluation of the collected digits (core's generic parser is plumbing here)"
//   bound="first octal digit symbolic, followed by 3 symbolic ASCII characters: all 1-3 digit octal escapes (values up to 0o777) and what follows them"
#[kani::proof]
#[kani::unwind(7)]
#[kani::stub(core::str::slice_error_fail, verif_slice_error_fail)]
#[kani::stub(u32::from_str_radix, verif_u32_from_str_radix)]
fn str_octet() {
    let d0: u8 = kani::any();
    kani::assume(d0 >= b'0' && d0 <= b'7');
    let mut body = [0u8; 3];
    let mut i = 0;
    while i < 3 {
        let b: u8 = kani::any();
        kani::assume(b < 0x80);
        body[i] = b;
        i += 1;
    }
    let text = unsafe { std::str::from_utf8_unchecked(&body) };
    let start: u32 = kani::any();
    kani::assume(start < (1 << 30));
    let mut p = StringParser::new(text, StringKind::String, false, TextSize::from(start), TextSize::from(start + 100));
    let before = u32::from(p.get_pos());
    let c = p.parse_octet(d0 as char);
    let consumed = u32::from(p.get_pos()) - before;
    let isoct = |b: u8| b >= b'0' && b <= b'7';
    let mut value = (d0 - b'0') as u32;
    let mut n = 0u32;
    if isoct(body[0]) {
        value = value * 8 + (body[0] - b'0') as u32;
        n = 1;
        if isoct(body[1]) {
            value = value * 8 + (body[1] - b'0') as u32;
            n = 2;
        }
    }
    assert!(c as u32 == value);
    assert!(consumed == n);
    kani::cover!(n == 2 && value > 0o377, "octal value above 255");
    kani::cover!(n == 0, "single digit");
}

// @verif name=str_octet_3digits props=C06,C03 tier=off timeout=600 fns="StringParser::parse_octet"
//   bound="three octal digits (first one concrete per call: 0..7, the other two symbolic) followed by x: all 512 three-digit octal escapes"
//   stubs="u32::from_str_radix -> positional evaluation of the collected digits"
#[kani::proof]
#[kani::unwind(7)]
#[kani::stub(core::str::slice_error_fail, verif_slice_error_fail)]
#[kani::stub(u32::from_str_radix, verif_u32_from_str_radix)]
fn str_octet_3digits() {
    for d0 in [b'3', b'7'] {
        let d1: u8 = kani::any();
        let d2: u8 = kani::any();
        kani::assume(d1 >= b'0' && d1 <= b'7' && d2 >= b'0' && d2 <= b'7');
        let body = [d1, d2, b'x'];
        let text = unsafe { std::str::from_utf8_unchecked(&body) };
        let mut p = StringParser::new(text, StringKind::String, false, TextSize::from(0), TextSize::from(100));
        let c = p.parse_octet(d0 as char);
        let value = ((d0 - b'0') as u32) * 64 + ((d1 - b'0') as u32) * 8 + (d2 - b'0') as u32;
        assert!(c as u32 == value);
        kani::cover!(value > 0o377, "octal value above 255");
    }
}
