// Replay file written by /verif/bin/check. Concrete counterexample(s) found by Kani/CBMC for harness
// `source_location::newlines::verif_newline_proofs::nl_back_a4` (harness source: /verif/harness/vendored/newline_proofs.rs).
// Re-run natively: /verif/bin/check --replay /verif/replay/C15-nl_back_a4.rs
// @replay harness=nl_back_a4 file=harness/vendored/newline_proofs.rs package=rustpython-parser-vendored features=

/// Test generated for harness `source_location::newlines::verif_newline_proofs::nl_back_a4` 
///
/// Check for `assertion`: "assertion failed: it.text.len() == s && it.text.as_ptr() == buf.as_ptr()"
///
/// # Warning
///
/// Concrete playback tests combined with stubs or contracts is highly
/// experimental, and subject to change.
///
/// The original harness has stubs which are not applied to this test.
/// This may cause a mismatch of non-deterministic values if the stub
/// creates any non-deterministic value.
/// The execution path may also differ, which can be used to refine the stub
/// logic.

#[test]
fn kani_concrete_playback_nl_back_a4_11377793371769705654() {
    let concrete_vals: Vec<Vec<u8>> = vec![
        // 74
        vec![74],
        // 9
        vec![9],
        // 13
        vec![13],
        // 10
        vec![10],
        // 2147483699
        vec![51, 0, 0, 128],
    ];
    kani::concrete_playback_run(concrete_vals, nl_back_a4);
}
