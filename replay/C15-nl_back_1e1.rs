// Replay file written by /verif/bin/check. Concrete counterexample(s) found by Kani/CBMC for harness
// `source_location::newlines::verif_newline_proofs::nl_back_1e1` (harness source: /verif/harness/vendored/newline_proofs.rs).
// Re-run natively: /verif/bin/check --replay /verif/replay/C15-nl_back_1e1.rs
// @replay harness=nl_back_1e1 file=harness/vendored/newline_proofs.rs package=rustpython-parser-vendored features=

/// Test generated for harness `source_location::newlines::verif_newline_proofs::nl_back_1e1` 
///
/// Check for `assertion`: "assertion failed: u32::from(it.offset_back) == base + s as u32"
///
/// # Warning
///
/// Concrete playback tests combined with stubs or contracts is highly
/// experimental, and subject to change.
///
/// The original harness has stubs which are not applied to this test.
/// This may cause a mismatch of non-deterministic values if the stub
/// creates any non-deterministic value.
/// The execution path may also differ, which can be used to refine the stub
/// logic.

#[test]
fn kani_concrete_playback_nl_back_1e1_12201533998866893844() {
    let concrete_vals: Vec<Vec<u8>> = vec![
        // 15
        vec![15],
        // 13
        vec![13],
        // 2684354549
        vec![245, 255, 255, 159],
    ];
    kani::concrete_playback_run(concrete_vals, nl_back_1e1);
}
