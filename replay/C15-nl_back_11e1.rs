// Replay file written by /verif/bin/check. Concrete counterexample(s) found by Kani/CBMC for harness
// `source_location::newlines::verif_newline_proofs::nl_back_11e1` (harness source: /verif/harness/vendored/newline_proofs.rs).
// Re-run natively: /verif/bin/check --replay /verif/replay/C15-nl_back_11e1.rs
// @replay harness=nl_back_11e1 file=harness/vendored/newline_proofs.rs package=rustpython-parser-vendored features=

/// Test generated for harness `source_location::newlines::verif_newline_proofs::nl_back_11e1` 
///
/// Check for `assertion`: "assertion failed: it.text.len() == s && it.text.as_ptr() == buf.as_ptr()"
///
/// # Warning
///
/// Concrete playback tests combined with stubs or contracts is highly
/// experimental, and subject to change.
///
/// The original harness has stubs which are not applied to this test.
/// This may cause a mismatch of non-deterministic values if the stub
/// creates any non-deterministic value.
/// The execution path may also differ, which can be used to refine the stub
/// logic.

#[test]
fn kani_concrete_playback_nl_back_11e1_4630243398840610991() {
    let concrete_vals: Vec<Vec<u8>> = vec![
        // 74
        vec![74],
        // 74
        vec![74],
        // 10
        vec![10],
        // 3254784085
        vec![85, 16, 0, 194],
    ];
    kani::concrete_playback_run(concrete_vals, nl_back_11e1);
}
