// Replay file written by /verif/bin/check. Concrete counterexample(s) found by Kani/CBMC for harness
// `source_location::newlines::verif_newline_proofs::nl_back_a3` (harness source: /verif/harness/vendored/newline_proofs.rs).
// Re-run natively: /verif/bin/check --replay /verif/replay/C15-nl_back_a3.rs
// @replay harness=nl_back_a3 file=harness/vendored/newline_proofs.rs package=rustpython-parser-vendored features=

/// Test generated for harness `source_location::newlines::verif_newline_proofs::nl_back_a3` 
///
/// Check for `assertion`: "assertion failed: u32::from(it.offset_back) == base + s as u32"
///
/// # Warning
///
/// Concrete playback tests combined with stubs or contracts is highly
/// experimental, and subject to change.
///
/// The original harness has stubs which are not applied to this test.
/// This may cause a mismatch of non-deterministic values if the stub
/// creates any non-deterministic value.
/// The execution path may also differ, which can be used to refine the stub
/// logic.

#[test]
fn kani_concrete_playback_nl_back_a3_10295910549933289513() {
    let concrete_vals: Vec<Vec<u8>> = vec![
        // 12
        vec![12],
        // 5
        vec![5],
        // 10
        vec![10],
        // 1610612735
        vec![255, 255, 255, 95],
    ];
    kani::concrete_playback_run(concrete_vals, nl_back_a3);
}
