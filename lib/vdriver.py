#!/usr/bin/env python3
"""Driver for the solver-based (Kani/CBMC) checks of RustPython/Parser.

One invocation decides one property at one tier:

  * copies /repo's current working tree to a scratch directory (outside /repo and /verif),
  * injects the `#[cfg(kani)]` harness modules of /verif/harness into the copy,
  * runs `cargo kani` (CBMC + CaDiCaL) on the selected harnesses,
  * treats unwinding failures / unsatisfied covers / timeouts / solver errors as INCONCLUSIVE (exit 2),
  * replays every counterexample natively (Kani concrete playback against the real code,
    without stubs) before printing a VIOLATION line,
  * writes /verif/evidence/<id>.json.

Exit status: 0 property held on everything explored (known findings are printed, not failed),
             1 at least one natively reproduced violation that is not a listed known finding,
             2 harness / tooling error or inconclusive run (never a pass).
"""
import json
import os
import re
import shlex
import shutil
import subprocess
import sys
import tempfile
import time
from concurrent.futures import ThreadPoolExecutor

VERIF = os.path.dirname(os.path.dirname(os.path.abspath(__file__)))
REPO = os.environ.get("VERIF_REPO", "/repo")
HARNESS_DIR = os.path.join(VERIF, "harness")
EVIDENCE_DIR = os.environ.get("VERIF_EVIDENCE_DIR") or os.path.join(VERIF, "evidence")
REPLAY_DIR = os.path.join(VERIF, "replay") if not os.environ.get("VERIF_EVIDENCE_DIR") else os.path.join(os.environ["VERIF_EVIDENCE_DIR"], "replay")
KNOWN = os.path.join(VERIF, "known_findings.txt")
NCPU = os.cpu_count() or 4

ENV = dict(os.environ)
ENV.update({"CARGO_NET_OFFLINE": "true", "CARGO_TERM_COLOR": "never"})
ENV.pop("RUSTFLAGS", None)


def log(*a):
    print(*a, file=sys.stderr, flush=True)


# --------------------------------------------------------------------------------------
# harness catalogue: parsed from annotation lines in /verif/harness/**/*.rs
#   //! @inject file=<path in repo> package=<cargo package> mod=<module name>
#   // @verif name=<fn> props=C15,C03 tier=quick|thorough|rotate [features=a,b] [timeout=s]
#   //        fns="..." bound="..." [stubs="..."] [assume="..."] [known=<finding id>]
# An annotation may continue on following lines that start with `//   ` (three spaces).
# --------------------------------------------------------------------------------------
KV = re.compile(r'(\w+)=("([^"]*)"|\S+)')


def parse_kv(s):
    out = {}
    for m in KV.finditer(s):
        out[m.group(1)] = m.group(3) if m.group(3) is not None else m.group(2)
    return out


class Harness:
    def __init__(self, hfile, kv):
        self.file = hfile
        self.name = kv["name"]
        self.props = kv.get("props", "").split(",")
        self.tier = kv.get("tier", "quick")
        self.features = tuple(sorted(f for f in kv.get("features", "").split(",") if f))
        self.timeout = int(kv["timeout"]) if "timeout" in kv else None
        self.fns = kv.get("fns", "")
        self.bound = kv.get("bound", "")
        self.stubs = kv.get("stubs", "")
        self.assume = kv.get("assume", "")
        self.known = kv.get("known")  # id of the known finding this harness is carved out for
        self.nocover = kv.get("nocover") == "1"
        # concrete values (hex, one per kani::any() call) for the native fallback run after a solver timeout
        self.probe = kv.get("probe")

    @property
    def package(self):
        return self.file.package


class HarnessFile:
    def __init__(self, path):
        self.path = path
        self.inject_file = None
        self.package = None
        self.mod = None
        self.harnesses = []
        self.generator = None
        text = open(path).read().split("\n")
        i = 0
        while i < len(text):
            line = text[i]
            if line.startswith("//! @inject"):
                kv = parse_kv(line)
                self.inject_file = kv["file"]
                self.package = kv["package"]
                self.mod = kv["mod"]
                self.generator = kv.get("generator")
            elif line.lstrip().startswith("// @verif"):
                s = line.lstrip()[len("// @verif"):]
                while i + 1 < len(text) and text[i + 1].lstrip().startswith("//   "):
                    i += 1
                    s += " " + text[i].lstrip()[2:]
                self.harnesses.append(Harness(self, parse_kv(s)))
            i += 1
        if self.inject_file is None:
            raise SystemExit(f"{path}: missing //! @inject line")


def catalogue(extra_dirs=()):
    files = []
    for base in (HARNESS_DIR,) + tuple(extra_dirs):
        for root, _, names in os.walk(base):
            for n in sorted(names):
                if n.endswith(".rs") and not n.startswith("_"):
                    files.append(HarnessFile(os.path.join(root, n)))
    return files


# --------------------------------------------------------------------------------------
# scratch copy
# --------------------------------------------------------------------------------------
class Scratch:
    def __init__(self):
        base = os.environ.get("VERIF_SCRATCH_BASE", tempfile.gettempdir())
        self.dir = tempfile.mkdtemp(prefix="verif-scratch-", dir=base)
        self.repo = os.path.join(self.dir, "repo")
        self.gen = os.path.join(self.dir, "gen")
        os.makedirs(self.gen)

    def populate(self):
        subprocess.run(["rsync", "-a", "--exclude", "/target", "--exclude", ".git", REPO + "/", self.repo + "/"],
                       check=True)
        # compile `log::trace!` in Lexer::next to nothing (feature unification; recorded in evidence)
        ct = os.path.join(self.repo, "Cargo.toml")
        s = open(ct).read()
        s2 = re.sub(r'^log = "([^"]+)"$', r'log = { version = "\1", features = ["max_level_off"] }', s, flags=re.M)
        open(ct, "w").write(s2)

    def inject(self, hfiles):
        for hf in hfiles:
            target = os.path.join(self.repo, hf.inject_file)
            if not os.path.exists(target):
                raise SystemExit(f"inject target missing in repo: {hf.inject_file}")
            with open(target, "a") as f:
                f.write(f'\n#[cfg(kani)] #[path = "{hf.path}"] mod {hf.mod};\n')

    def cleanup(self):
        shutil.rmtree(self.dir, ignore_errors=True)


# --------------------------------------------------------------------------------------
# running kani
# --------------------------------------------------------------------------------------
def kani_cmd(package, features, harness_names, jobs, timeout_s, target_dir, export_json):
    cmd = ["cargo", "kani", "-p", package, "--target-dir", target_dir,
           "-Z", "unstable-options", "-Z", "stubbing",
           "--harness-timeout", f"{timeout_s}s", "--output-format", "terse",
           "--export-json", export_json, "--exact"]
    if jobs > 1:
        cmd += ["-j", str(jobs)]
    if features:
        cmd += ["--features", ",".join(features)]
    for h in harness_names:
        cmd += ["--harness", h]
    return cmd


def run_limited(cmd, cwd, logfile, mem_kb, wall_s):
    sh = f"ulimit -v {mem_kb}; exec " + " ".join(shlex.quote(c) for c in cmd)
    t0 = time.time()
    with open(logfile, "w") as lf:
        try:
            p = subprocess.run(["bash", "-c", sh], cwd=cwd, stdout=lf, stderr=subprocess.STDOUT, env=ENV,
                               timeout=wall_s)
            rc = p.returncode
        except subprocess.TimeoutExpired:
            rc = -9
    return rc, time.time() - t0


def full_names(scratch, group_key, harnesses, logdir):
    """Map short harness fn names to fully qualified names: <module path of inject file>::<mod>::<fn>."""
    out = {}
    for h in harnesses:
        rel = h.file.inject_file
        parts = rel.split("/")
        # <crate dir>/src/a/b.rs -> a::b ; lib.rs / mod.rs dropped
        idx = parts.index("src")
        mods = parts[idx + 1:]
        mods[-1] = mods[-1][:-3]
        if mods[-1] in ("lib", "mod"):
            mods = mods[:-1]
        out[h.name] = "::".join(mods + [h.file.mod, h.name])
    return out


class GroupResult:
    def __init__(self):
        self.rc = None
        self.wall = 0.0
        self.log = None
        self.json = None
        self.per_harness = {}   # short name -> dict


def run_group(scratch, package, features, harnesses, jobs, tier, idx):
    gr = GroupResult()
    tdir = os.path.join(scratch.dir, f"target-{idx}")
    out_json = os.path.join(scratch.dir, f"kani-{idx}.json")
    gr.log = os.path.join(scratch.dir, f"kani-{idx}.log")
    names = full_names(scratch, None, harnesses, None)
    default_to = 420 if tier == "quick" else 2400
    to = max([h.timeout or default_to for h in harnesses])
    if tier == "quick":
        to = min(to, 900)
    mem_kb = int(os.environ.get("VERIF_MEM_GB", "10" if tier == "quick" else "20")) * 1024 * 1024
    # wall cap: build + ceil(n/jobs) rounds of the harness timeout
    rounds = (len(harnesses) + jobs - 1) // jobs
    wall_cap = 600 + rounds * (to + 30)
    cmd = kani_cmd(package, features, [names[h.name] for h in harnesses], jobs, to, tdir, out_json)
    log(f"[kani] package={package} features={','.join(features) or '-'} harnesses={len(harnesses)} jobs={jobs} "
        f"timeout={to}s")
    gr.rc, gr.wall = run_limited(cmd, scratch.repo, gr.log, mem_kb, wall_cap)
    if os.path.exists(out_json):
        try:
            gr.json = json.load(open(out_json))
        except Exception as e:  # noqa
            gr.json = None
    gr.names = names
    return gr


UNWIND_RE = re.compile(r"unwinding assertion|recursion unwinding")


def classify(gr, harnesses):
    """Return dict short name -> {status: pass|fail|inconclusive|missing, ...}."""
    res = {}
    byid = {}
    stats = {}
    if gr.json:
        for r in gr.json.get("verification_results", {}).get("results", []):
            byid[r["harness_id"]] = r
        for c in gr.json.get("cbmc", []):
            stats[c["harness_id"]] = c.get("cbmc_stats") or {}
    for h in harnesses:
        fq = gr.names[h.name]
        r = byid.get(fq)
        d = {"harness": h.name, "fq": fq, "status": "missing", "failed": [], "covers_sat": 0, "covers_total": 0,
             "checks": 0, "time_s": 0.0, "solver_s": 0.0, "why": ""}
        res[h.name] = d
        if r is None:
            d["why"] = "no result in kani export (build error, timeout or crash)"
            continue
        d["time_s"] = r.get("duration_ms", 0) / 1000.0
        st = stats.get(fq) or {}
        d["solver_s"] = float(st.get("runtime_solver_s", 0.0) or 0.0)
        d["vccs"] = st.get("vccs_generated", 0)
        checks = r.get("checks", [])
        d["checks"] = len([c for c in checks if c.get("category") != "cover"])
        unwind_fail = False
        undetermined = 0
        other_bad = 0
        for c in checks:
            cat = c.get("category")
            s = c.get("status")
            if cat == "cover":
                d["covers_total"] += 1
                if s == "Satisfied":
                    d["covers_sat"] += 1
                continue
            if s == "Success":
                continue
            if s == "Failure":
                if cat == "unwind" or UNWIND_RE.search(c.get("description", "")):
                    unwind_fail = True
                else:
                    d["failed"].append({"description": c.get("description"), "function": c.get("function"),
                                        "file": c.get("location", {}).get("file"),
                                        "line": c.get("location", {}).get("line"), "category": cat})
            elif s == "Undetermined":
                undetermined += 1
            elif s == "Unreachable":
                pass
            else:
                other_bad += 1
        if unwind_fail:
            d["status"] = "inconclusive"
            d["why"] = "unwinding assertion failed: bound too small for this code"
        elif other_bad:
            d["status"] = "inconclusive"
            d["why"] = f"{other_bad} checks with solver error / unknown status"
        elif d["failed"]:
            d["status"] = "fail"
        elif r.get("status") != "Success":
            d["status"] = "inconclusive"
            d["why"] = f"kani status {r.get('status')} without a failed check (timeout / out of memory / solver error)"
        elif undetermined:
            d["status"] = "inconclusive"
            d["why"] = f"{undetermined} undetermined checks"
        elif not h.nocover and d["covers_sat"] < d["covers_total"]:
            d["status"] = "inconclusive"
            d["why"] = f"vacuity witness failed: {d['covers_total'] - d['covers_sat']} cover(s) unsatisfiable/unreachable"
        elif not h.nocover and d["covers_total"] == 0:
            d["status"] = "inconclusive"
            d["why"] = "harness has no reachability witness (kani::cover!)"
        else:
            d["status"] = "pass"
    return res


# --------------------------------------------------------------------------------------
# replay: kani concrete playback, natively, against the real code (no stubs)
# --------------------------------------------------------------------------------------
PLAYBACK_RE = re.compile(r"```\n(/// Test generated for harness.*?)```", re.S)


def playback(scratch, h, fq, features, idx, prop):
    """Re-run the failing harness alone with --concrete-playback=print, append the generated tests to a copy of
    the harness file in the scratch tree and run them natively. Returns (reproduced, replay_path, detail)."""
    tdir = os.path.join(scratch.dir, f"target-{idx}")
    plog = os.path.join(scratch.dir, f"playback-{h.name}.log")
    cmd = ["cargo", "kani", "-p", h.package, "--target-dir", tdir, "-Z", "unstable-options", "-Z", "stubbing",
           "-Z", "concrete-playback", "--concrete-playback=print", "--output-format", "terse",
           "--harness-timeout", "1800s", "--exact", "--harness", fq]
    if features:
        cmd += ["--features", ",".join(features)]
    run_limited(cmd, scratch.repo, plog, int(os.environ.get("VERIF_PLAYBACK_MEM_GB", "44")) * 1024 * 1024, 2400)
    out = open(plog).read()
    tests = []
    for t in PLAYBACK_RE.findall(out):
        if "Check for `cover`" in t or "#[test]" not in t:
            continue
        # the header quotes the failed check; its text may span lines (not valid as a comment): flatten it
        head, body = t.split("#[test]", 1)
        head = " ".join(x.strip().lstrip("/").strip() for x in head.strip().splitlines())
        tests.append("// " + head[:300] + "\n#[test]" + body)
    if not tests:
        return False, None, "kani produced no concrete playback test for the failed check"
    os.makedirs(REPLAY_DIR, exist_ok=True)
    replay_path = os.path.join(REPLAY_DIR, f"{prop}-{h.name}.rs")
    body = ("// Replay file written by /verif/bin/check. Concrete counterexample(s) found by Kani/CBMC for harness\n"
            f"// `{fq}` (harness source: {h.file.path}).\n"
            f"// Re-run natively: /verif/bin/check --replay {replay_path}\n"
            f"// @replay harness={h.name} file={os.path.relpath(h.file.path, VERIF)} package={h.package} "
            f"features={','.join(features)}\n\n" + "\n".join(tests))
    open(replay_path, "w").write(body)
    ok, detail = run_playback_tests(scratch, h.file, h.package, features, "\n".join(tests))
    return ok, replay_path, detail


def probe_native(scratch, h, fq, features, prop):
    """Timeout triage. When CBMC did not finish a harness (a change to the code can make an otherwise pruned path -
    typically recursive drop glue - reachable), the harness body is executed natively once on the concrete input given by
    its `probe=` annotation. A native panic is a real failing input of the real code and is reported as a violation
    (sound); no panic leaves the harness inconclusive. A pass is never derived from a probe."""
    vals = ",\n        ".join("vec![" + ", ".join(str(b) for b in bytes.fromhex(v)) + "]" for v in h.probe.split(","))
    test = (f"// native fallback probe of harness `{fq}` after a solver timeout (concrete input from its probe= annotation)\n"
            f"#[test]\nfn kani_concrete_playback_probe_{h.name}() {{\n    let concrete_vals: Vec<Vec<u8>> = vec![\n        {vals},\n    ];\n"
            f"    kani::concrete_playback_run(concrete_vals, {h.name});\n}}\n")
    os.makedirs(REPLAY_DIR, exist_ok=True)
    replay_path = os.path.join(REPLAY_DIR, f"{prop}-{h.name}.rs")
    body = ("// Replay file written by /verif/bin/check. The solver did not finish this harness; the concrete input below\n"
            f"// (probe annotation of `{fq}`, harness source: {h.file.path}) fails natively.\n"
            f"// Re-run natively: /verif/bin/check --replay {replay_path}\n"
            f"// @replay harness={h.name} file={os.path.relpath(h.file.path, VERIF) if h.file.path.startswith(VERIF) else os.path.basename(h.file.path)} package={h.package} "
            f"features={','.join(features)}\n\n" + test)
    open(replay_path, "w").write(body)
    ok, detail = run_playback_tests(scratch, h.file, h.package, features, test)
    return ok, replay_path, detail


def probe_test_src(h):
    vals = ",\n        ".join("vec![" + ", ".join(str(b) for b in bytes.fromhex(v)) + "]" for v in h.probe.split(","))
    return (f"#[test]\nfn kani_concrete_playback_probe_{h.name}() {{\n    let concrete_vals: Vec<Vec<u8>> = vec![\n        {vals},\n    ];\n"
            f"    kani::concrete_playback_run(concrete_vals, {h.name});\n}}\n")


def run_supplementary_probes(scratch, probe_hs, prop):
    """Supplementary native probes (NOT part of the solver claim): harnesses that CBMC cannot finish on this code base
    (`tier=off` with a `probe=` input, e.g. visitor lemmas over lists of length 2) are executed natively once on
    their probe input. A panic is a real failing input (reported as a violation, with a replay file); a pass adds
    nothing to what the check claims. Returns list of (harness, replay_path, detail)."""
    found = []
    groups = {}
    for h in probe_hs:
        groups.setdefault((h.file, h.features), []).append(h)
    for (hfile, features), lst in groups.items():
        tests = "\n".join(probe_test_src(h) for h in lst)
        copy = os.path.join(scratch.gen, "playback_" + os.path.basename(hfile.path))
        src = open(hfile.path).read().replace('include!("../', 'include!("' + os.path.dirname(os.path.dirname(hfile.path)) + '/')
        open(copy, "w").write(src + "\n" + tests + "\n")
        target = os.path.join(scratch.repo, hfile.inject_file)
        t = open(target).read()
        open(target, "w").write(t.replace(f'#[path = "{hfile.path}"]', f'#[path = "{copy}"]'))
        env = dict(ENV)
        env["CARGO_TARGET_DIR"] = os.path.join(scratch.dir, "target-playback")
        env["RUST_BACKTRACE"] = "0"
        cmd = ["cargo", "kani", "playback", "-Z", "concrete-playback", "-p", hfile.package]
        if features:
            cmd += ["--features", ",".join(features)]
        cmd += ["--", "kani_concrete_playback_probe"]
        p = subprocess.run(cmd, cwd=scratch.repo, env=env, stdout=subprocess.PIPE, stderr=subprocess.STDOUT, text=True)
        open(target, "w").write(t)
        if not re.search(r"test result: \w+\. \d+ passed; \d+ failed", p.stdout):
            log("supplementary probes did not run for " + hfile.path + ": " + p.stdout[-400:])
            continue
        for h in lst:
            if re.search(rf"test \S*kani_concrete_playback_probe_{h.name} \.\.\. FAILED", p.stdout):
                os.makedirs(REPLAY_DIR, exist_ok=True)
                rp = os.path.join(REPLAY_DIR, f"{prop}-{h.name}.rs")
                open(rp, "w").write(
                    "// Replay file written by /verif/bin/check: supplementary native probe (this harness is in no solver tier because\n"
                    "// CBMC does not finish it; it was executed natively on its probe input and panicked).\n"
                    f"// Re-run natively: /verif/bin/check --replay {rp}\n"
                    f"// @replay harness={h.name} file={os.path.basename(h.file.path)} package={h.package} features={','.join(features)}\n\n"
                    + probe_test_src(h))
                found.append((h, rp, "native probe panics (dev profile)"))
    return found


def run_playback_tests(scratch, hfile, package, features, tests_src):
    # the harness module is included by #[path]; make a copy with the tests appended and re-point the include
    copy = os.path.join(scratch.gen, "playback_" + os.path.basename(hfile.path))
    src = open(hfile.path).read()
    # relative include!()s of shared helper files must keep pointing into /verif/harness
    src = src.replace('include!("../', 'include!("' + os.path.dirname(os.path.dirname(hfile.path)) + '/')
    open(copy, "w").write(src + "\n" + tests_src + "\n")
    target = os.path.join(scratch.repo, hfile.inject_file)
    s = open(target).read()
    s = s.replace(f'#[path = "{hfile.path}"]', f'#[path = "{copy}"]')
    open(target, "w").write(s)
    details = []
    reproduced = False
    for profile in ("dev", "release"):
        env = dict(ENV)
        env["CARGO_TARGET_DIR"] = os.path.join(scratch.dir, "target-playback")
        env["RUST_BACKTRACE"] = "0"
        cmd = ["cargo", "kani", "playback", "-Z", "concrete-playback", "-p", package]
        if features:
            cmd += ["--features", ",".join(features)]
        if profile == "release":
            # `cargo kani playback` has no --release: emulate the release profile's semantics on the test profile
            env.update({"CARGO_PROFILE_DEV_OPT_LEVEL": "3", "CARGO_PROFILE_DEV_DEBUG_ASSERTIONS": "false",
                        "CARGO_PROFILE_DEV_OVERFLOW_CHECKS": "false",
                        "CARGO_TARGET_DIR": os.path.join(scratch.dir, "target-playback-rel")})
        cmd += ["--", "kani_concrete_playback"]
        p = subprocess.run(cmd, cwd=scratch.repo, env=env, stdout=subprocess.PIPE, stderr=subprocess.STDOUT, text=True)
        m = re.search(r"test result: (\w+)\. (\d+) passed; (\d+) failed", p.stdout)
        if m:
            details.append(f"{profile}: {m.group(3)} of {int(m.group(2)) + int(m.group(3))} playback tests failed natively")
            if int(m.group(3)) > 0:
                reproduced = True
                pm = re.search(r"panicked at ([^\n]*)\n([^\n]*)", p.stdout)
                if pm:
                    details.append(f"{profile} panic: {pm.group(1)} {pm.group(2)}"[:400])
        else:
            details.append(f"{profile}: playback did not run (rc={p.returncode}): " + p.stdout[-600:])
    # restore include
    s = open(target).read().replace(f'#[path = "{copy}"]', f'#[path = "{hfile.path}"]')
    open(target, "w").write(s)
    return reproduced, "; ".join(details)


# --------------------------------------------------------------------------------------
# known findings
# --------------------------------------------------------------------------------------
def load_known():
    known = {}
    if os.path.exists(KNOWN):
        for line in open(KNOWN):
            line = line.strip()
            if line.startswith("known:"):
                kv = parse_kv(line[len("known:"):])
                known[kv["id"]] = kv
    return known


# --------------------------------------------------------------------------------------
# main check
# --------------------------------------------------------------------------------------
def select(files, prop, tier, seed):
    hs = [h for f in files for h in f.harnesses if prop in h.props]
    quick = [h for h in hs if h.tier == "quick"]
    rot = [h for h in hs if h.tier == "rotate"]
    thorough = [h for h in hs if h.tier == "thorough"]
    if tier == "thorough":
        return quick + rot + thorough
    extra = []
    if rot:
        k = min(24, max(1, len(rot) // 4))
        start = (seed * k) % len(rot)
        extra = [rot[(start + i) % len(rot)] for i in range(k)]
    return quick + extra


def run_generators(files, scratch):
    """Harness files may be produced at run time from /repo's sources (e.g. per AST node kind)."""
    gen_dir = os.path.join(VERIF, "gen")
    extra = []
    if os.path.isdir(gen_dir):
        for n in sorted(os.listdir(gen_dir)):
            if n.endswith(".py"):
                p = subprocess.run([sys.executable, os.path.join(gen_dir, n), REPO, scratch.gen],
                                   stdout=subprocess.PIPE, stderr=subprocess.STDOUT, text=True)
                if p.returncode != 0:
                    raise SystemExit(f"generator {n} failed:\n{p.stdout}")
    for root, _, names in os.walk(scratch.gen):
        for n in sorted(names):
            if n.endswith(".rs") and not n.startswith("playback_"):
                extra.append(HarnessFile(os.path.join(root, n)))
    return extra


def validators_for(prop):
    """Native validation of reference models against python3 (oracle check, never a VIOLATION)."""
    vdir = os.path.join(VERIF, "models", "validate")
    out = []
    if os.path.isdir(vdir):
        for n in sorted(os.listdir(vdir)):
            if n.startswith(prop + "_") and (n.endswith(".py") or n.endswith(".sh")):
                out.append(os.path.join(vdir, n))
    return out


def check(prop, tier, seed, keep=False, only=None):
    t0 = time.time()
    os.makedirs(EVIDENCE_DIR, exist_ok=True)
    scratch = Scratch()
    exit_code = 2
    try:
        scratch.populate()
        files = catalogue()
        files += run_generators(files, scratch)
        hs = select(files, prop, tier, seed)
        if only:
            hs = [h for h in hs if re.search(only, h.name)]
        if not hs:
            raise SystemExit(f"no harness serves property {prop}")
        # model validators
        vnotes = []
        for v in validators_for(prop):
            cmdv = [sys.executable, v] if v.endswith(".py") else ["bash", v]
            p = subprocess.run(cmdv + [tier], cwd=VERIF, stdout=subprocess.PIPE, stderr=subprocess.STDOUT, text=True,
                               env=dict(ENV, VERIF_SCRATCH=scratch.dir, VERIF_REPO_COPY=scratch.repo))
            last = p.stdout.strip().split("\n")[-1] if p.stdout.strip() else ""
            vnotes.append(f"{os.path.basename(v)}: rc={p.returncode} {last}")
            if p.returncode != 0:
                log(p.stdout[-3000:])
                log(f"ERROR: reference model validation failed ({v}); the oracle is wrong, not the code")
                return finish(prop, tier, seed, t0, hs, {}, [], [], vnotes, 2, "model validation failed")
        used_files = sorted({h.file for h in hs}, key=lambda f: f.path)
        # inject every harness file of the packages involved (they must all compile anyway)
        scratch.inject([f for f in files if f.package in {h.package for h in hs}])
        groups = {}
        for h in hs:
            groups.setdefault((h.package, h.features), []).append(h)
        ng = len(groups)
        total_jobs = int(os.environ.get("VERIF_JOBS", str(min(NCPU, 14))))
        results = {}
        group_results = []
        weights = {k: len(v) for k, v in groups.items()}
        wsum = sum(weights.values())

        def work(item):
            idx, (key, lst) = item
            jobs = max(1, min(len(lst), round(total_jobs * weights[key] / wsum)))
            gr = run_group(scratch, key[0], key[1], lst, jobs, tier, idx)
            return idx, key, lst, gr

        with ThreadPoolExecutor(max_workers=ng) as ex:
            for idx, key, lst, gr in ex.map(work, list(enumerate(groups.items()))):
                group_results.append((idx, key, lst, gr))
                cl = classify(gr, lst)
                if gr.json is None:
                    tail = open(gr.log).read()[-4000:]
                    log(f"---- kani log tail ({key[0]}) ----\n{tail}\n----")
                results.update({k: dict(v, idx=idx, features=key[1]) for k, v in cl.items()})
        known = load_known()
        # supplementary native probes of harnesses that are in no solver tier
        probe_only = [h for f in files for h in f.harnesses if prop in h.props and h.tier == "off" and h.probe]
        if only:
            probe_only = [h for h in probe_only if re.search(only, h.name)]
        probe_found = run_supplementary_probes(scratch, probe_only, prop) if probe_only else []
        if probe_only:
            vnotes.append(f"supplementary native probes (harnesses CBMC cannot finish; NOT part of the solver claim): "
                          f"{len(probe_only)} executed natively on their probe input, {len(probe_found)} panicked")
        violations = []
        known_hits = []
        inconclusive = []
        not_replayed = []
        replayed = 0
        probes = 0
        byname = {h.name: h for h in hs}
        for name, d in sorted(results.items()):
            h = byname[name]
            if d["status"] == "pass":
                continue
            if d["status"] in ("inconclusive", "missing"):
                if h.probe and d["status"] == "inconclusive" and "vacuity" not in d["why"] and probes < 3:
                    probes += 1
                    ok, rpath, detail = probe_native(scratch, h, d["fq"], d["features"], prop)
                    if ok:
                        d["replay"] = rpath
                        d["replay_detail"] = "solver inconclusive (" + d["why"] + "); native probe: " + detail
                        d["failed"] = [{"description": "native probe of the harness panics", "function": d["fq"],
                                        "file": h.file.path, "line": "?", "category": "probe"}]
                        violations.append((name, d))
                        continue
                inconclusive.append((name, d["why"]))
                continue
            # failed: known-finding carve-out harness?
            if h.known and h.known in known and known[h.known].get("property") == prop:
                known_hits.append((h.known, name, d))
                continue
            if len(violations) >= 2 or replayed >= 4:
                not_replayed.append(name)
                continue
            replayed += 1
            ok, rpath, detail = playback(scratch, h, d["fq"], d["features"], d["idx"], prop)
            if not ok and rpath is None and h.probe:
                # Kani could not print a concrete test (its trace processing can exceed the memory cap on large
                # harnesses): execute the harness natively on its probe input instead
                ok, rpath, detail2 = probe_native(scratch, h, d["fq"], d["features"], prop)
                detail = detail + "; native probe: " + detail2
            d["replay"] = rpath
            d["replay_detail"] = detail
            if ok:
                violations.append((name, d))
            else:
                inconclusive.append((name, "counterexample did not reproduce natively (stub/model/harness problem): "
                                     + detail))
        for h, rp, detail in probe_found:
            violations.append((h.name, {"failed": [{"description": "supplementary native probe panics", "file": h.file.path,
                                                     "line": "?", "function": h.name}], "replay": rp, "replay_detail": detail,
                                         "status": "fail"}))
        # report
        for kid, name, d in known_hits:
            k = known[kid]
            print(f"KNOWN-FINDING: property={prop} id={kid} harness={name} {k.get('what', '')}")
        for name, d in violations:
            fc = d["failed"][0]
            log(f"violation in harness {name}: {fc['description']} at {fc['file']}:{fc['line']} ({fc['function']}); "
                f"{d.get('replay_detail', '')}")
            print(f"VIOLATION property={prop} replay={d['replay']}")
        for name, why in inconclusive:
            log(f"INCONCLUSIVE harness={name}: {why}")
        if not_replayed:
            log("failed in the solver but not replayed (replay budget spent on the first failures): " + ", ".join(not_replayed))
        if violations:
            exit_code = 1
        elif inconclusive:
            exit_code = 2
        else:
            exit_code = 0
        return finish(prop, tier, seed, t0, hs, results, violations, known_hits, vnotes, exit_code,
                      "; ".join(f"{n}: {w}" for n, w in inconclusive))
    finally:
        if keep or os.environ.get("VERIF_KEEP"):
            log(f"scratch kept at {scratch.dir}")
        else:
            scratch.cleanup()


def finish(prop, tier, seed, t0, hs, results, violations, known_hits, vnotes, exit_code, note):
    wall = time.time() - t0
    passed = [n for n, d in results.items() if d["status"] == "pass"]
    nontrivial = [n for n in passed if results[n]["covers_sat"] > 0]
    samples = []
    for h in hs[:]:
        d = results.get(h.name, {})
        samples.append({"harness": h.name, "functions_encoded": h.fns, "bound": h.bound,
                        "status": d.get("status", "not run"), "checks_discharged": d.get("checks", 0),
                        "covers_satisfied": d.get("covers_sat", 0), "verification_time_s": d.get("time_s", 0.0)})
    stubs = sorted({s.strip() for h in hs for s in h.stubs.split(";") if s.strip()})
    assumes = sorted({s.strip() for h in hs for s in h.assume.split(";") if s.strip()})
    ev = {
        "property_id": prop,
        "tier": tier,
        "seed": seed,
        "level": "model_checking",
        "coverage": {
            "evaluations": len(results),
            "distinct_nontrivial": len(nontrivial),
            "rule": "one evaluation = one Kani harness instance = one bounded-model-checking query (CBMC + CaDiCaL) over "
                    "symbolic inputs, regenerated from /repo's working tree; an instance counts as distinct and "
                    "non-trivial when it verified successfully with unwinding assertions on AND at least one of its "
                    "kani::cover! reachability witnesses was satisfied (instances have distinct names and distinct "
                    "entry points / lengths / dispatch values)",
            "exhaustive": exit_code == 0,
            "explanation": "exhaustive means: every value of the symbolic inputs inside each harness' stated bound was "
                           "decided by the solver; nothing is claimed outside the bounds listed per sample",
            "samples": samples,
            "queries": {"run": len(results), "discharged": len(passed), "failed": len(violations),
                        "known_findings": len(known_hits),
                        "inconclusive": len([1 for d in results.values() if d["status"] in ("inconclusive", "missing")])},
            "checks_discharged": sum(d.get("checks", 0) for d in results.values() if d["status"] == "pass"),
            "vccs_generated": sum(int(d.get("vccs", 0) or 0) for d in results.values()),
            "solver_time_s": round(sum(d.get("solver_s", 0.0) for d in results.values()), 2),
            "verification_time_s": round(sum(d.get("time_s", 0.0) for d in results.values()), 2),
            "functions_encoded": sorted({f.strip() for h in hs for f in h.fns.split(",") if f.strip()}),
            "stubs": stubs,
            "engine": "Kani 0.68.0 / CBMC 6.11.0 / CaDiCaL, dev profile (overflow checks and debug assertions on)",
            "model_validation": vnotes,
            "note": note,
        },
        "assumptions": assumes + [
            "Kani's MIR-to-goto translation and CBMC are trusted",
            "scratch copy differs from /repo only by appended `#[cfg(kani)] mod` lines and log/max_level_off",
        ],
        "wall_s": round(wall, 1),
        "violations": len(violations),
    }
    if exit_code != 2 or results:
        json.dump(ev, open(os.path.join(EVIDENCE_DIR, f"{prop}.json"), "w"), indent=1)
    log(f"[{prop}] tier={tier} harnesses={len(results)} pass={len(passed)} violations={len(violations)} "
        f"known={len(known_hits)} exit={exit_code} wall={wall:.0f}s")
    return exit_code


def replay(path):
    """Re-run a replay file natively against /repo's current tree."""
    text = open(path).read()
    m = re.search(r"// @replay (.*)", text)
    kv = parse_kv(m.group(1))
    scratch = Scratch()
    try:
        scratch.populate()
        files = catalogue()
        files += run_generators(files, scratch)
        hf = [f for f in files if os.path.relpath(f.path, VERIF) == kv["file"] or os.path.basename(f.path) == os.path.basename(kv["file"])][0]
        scratch.inject([f for f in files if f.package == hf.package])
        feats = tuple(x for x in kv.get("features", "").split(",") if x)
        tests = text.split("\n\n", 1)[1]
        ok, detail = run_playback_tests(scratch, hf, hf.package, feats, tests)
        print(("REPRODUCED: " if ok else "not reproduced: ") + detail)
        return 1 if ok else 0
    finally:
        scratch.cleanup()


def main(argv):
    import argparse
    ap = argparse.ArgumentParser()
    ap.add_argument("prop", nargs="?")
    ap.add_argument("--tier", default=os.environ.get("VERIF_TIER", "quick"), choices=["quick", "thorough"])
    ap.add_argument("--keep", action="store_true")
    ap.add_argument("--only", help="regex on harness names (debugging; evidence then covers only those)")
    ap.add_argument("--replay")
    ap.add_argument("--list", action="store_true")
    a = ap.parse_args(argv)
    if a.replay:
        return replay(a.replay)
    if a.list:
        for f in catalogue():
            for h in f.harnesses:
                print(f"{','.join(h.props):12} {h.tier:8} {h.package:28} {h.name}")
        return 0
    seed = int(os.environ.get("VERIF_SEED", "0") or 0)
    return check(a.prop, a.tier, seed, keep=a.keep, only=a.only)


if __name__ == "__main__":
    sys.exit(main(sys.argv[1:]))
