#!/usr/bin/env python3
"""Validates the Rust reference models of models/template_model.rs against python3's own template parser over the
complete enumerated domain the Kani harnesses quantify over (and a bit beyond). A mismatch means MY ORACLE is wrong
(exit 1 => the check reports a tooling error, never a VIOLATION)."""
import itertools, os, subprocess, sys, tempfile, _string

HERE = os.path.dirname(os.path.abspath(__file__))
tier = sys.argv[1] if len(sys.argv) > 1 else "quick"
T_LIT, T_FIELD, T_SEP, T_END, T_NOCONV = 0xF8, 0xF9, 0xFA, 0xFB, 0xFC
F_AUTO, F_INDEX, F_KEY, F_ATTR, F_END = 0xF8, 0xF9, 0xFA, 0xFB, 0xFC


def depth_exceeds(s):
    # the documented difference: more than one level of nested braces inside a format spec
    try:
        for lit, name, spec, conv in _string.formatter_parser(s):
            if spec:
                d = 0
                for ch in spec:
                    if ch == '{':
                        d += 1
                        if d > 1:
                            return True
                    elif ch == '}':
                        d -= 1
    except ValueError:
        pass
    return False


def py_template(s):
    try:
        out = bytearray()
        for lit, name, spec, conv in _string.formatter_parser(s):
            for b in lit.encode():
                out.append(T_LIT)
                out.append(b)
            if name is not None:
                out.append(T_FIELD)
                out += name.encode()
                out.append(T_SEP)
                out += conv.encode() if conv else bytes([T_NOCONV])
                out.append(T_SEP)
                out += spec.encode()
                out.append(T_END)
        return out.hex()
    except ValueError:
        return "ERR"


def py_field(s):
    try:
        first, rest = _string.formatter_field_name_split(s)
        out = bytearray()

        def key(v):
            if isinstance(v, int):
                out.append(F_INDEX)
                out.extend(v.to_bytes(4, "big"))
            else:
                out.append(F_KEY)
                out.extend(v.encode())
                out.append(F_END)
        if first == '':
            out.append(F_AUTO)
        else:
            key(first)
        for is_attr, v in rest:
            if is_attr:
                out.append(F_ATTR)
                out.extend(v.encode())
                out.append(F_END)
            else:
                key(v)
        return out.hex()
    except ValueError:
        return "ERR"


def main():
    scratch = os.environ.get("VERIF_SCRATCH") or tempfile.mkdtemp()
    exe = os.path.join(scratch, "template_main")
    subprocess.run(["rustc", "-O", "-o", exe, os.path.join(HERE, "template_main.rs")], check=True,
                   stdout=subprocess.DEVNULL, stderr=subprocess.DEVNULL)
    n = 0
    bad = 0
    for mode, alphabet, maxlen, ref in (("template", "a0{}[]!:.é", 5 if tier == "quick" else 6, py_template),
                                        ("field", "a01.[]+é", 5 if tier == "quick" else 6, py_field)):
        res = subprocess.run([exe, mode, alphabet, str(maxlen)], stdout=subprocess.PIPE, check=True).stdout.decode()
        for line in res.splitlines():
            h, got = line.split("\t")
            s = bytes.fromhex(h).decode()
            n += 1
            want = ref(s)
            if mode == "template" and want != "ERR" and depth_exceeds(s):
                want = "ERR"
            if got != want:
                bad += 1
                if bad < 10:
                    print(f"MODEL MISMATCH {mode} {s!r}: model={got} python={want}")
    print(f"template/field-name models vs python3: {n} inputs, {bad} mismatches")
    return 1 if bad else 0


if __name__ == "__main__":
    sys.exit(main())
