// Native runner for the template / field-name reference models: prints "<input hex>\t<result hex or ERR>".
include!("../template_model.rs");
fn hex(b: &[u8]) -> String { b.iter().map(|x| format!("{:02x}", x)).collect() }
fn main() {
    let args: Vec<String> = std::env::args().collect();
    let mode = args[1].as_str();
    let alphabet: Vec<char> = args[2].chars().collect();
    let maxlen: usize = args[3].parse().unwrap();
    let mut out = String::new();
    for len in 0..=maxlen {
        let mut idx = vec![0usize; len];
        loop {
            let s: String = idx.iter().map(|&i| alphabet[i]).collect();
            let mut buf = [0u8; 256];
            let r = if mode == "template" { template_model(s.as_bytes(), &mut buf) } else { field_name_model(s.as_bytes(), &mut buf) };
            out.push_str(&hex(s.as_bytes()));
            out.push('\t');
            match r { Some(l) => out.push_str(&hex(&buf[..l])), None => out.push_str("ERR") }
            out.push('\n');
            let mut k = len;
            let mut done = len == 0;
            while k > 0 {
                k -= 1;
                idx[k] += 1;
                if idx[k] < alphabet.len() { break; }
                idx[k] = 0;
                if k == 0 { done = true; }
            }
            if done { break; }
        }
    }
    print!("{}", out);
}
