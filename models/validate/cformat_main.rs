include!("../cformat_model.rs");
fn main() {
    let args: Vec<String> = std::env::args().collect();
    let alphabet: Vec<char> = args[1].chars().collect();
    let maxlen: usize = args[2].parse().unwrap();
    let mut out = String::new();
    for len in 0..=maxlen {
        let mut idx = vec![0usize; len];
        loop {
            let s: Vec<u32> = idx.iter().map(|&i| alphabet[i] as u32).collect();
            let r = cformat_spec_model(&s, s.len());
            let text: String = idx.iter().map(|&i| alphabet[i]).collect();
            out.push_str(&format!("{}\t{:?}\t{}\t{}\t{}\t{}\t{}\t{}\t{}\t{}\t{}\n", text, r.err, r.err_index, r.has_key as u8,
                if r.has_key { text.chars().skip(r.key_start).take(r.key_end - r.key_start).collect::<String>() } else { String::new() },
                r.flags, r.width_kind, r.width, r.prec_kind, r.prec, r.consumed));
            let mut k = len;
            let mut done = len == 0;
            while k > 0 {
                k -= 1;
                idx[k] += 1;
                if idx[k] < alphabet.len() { break; }
                idx[k] = 0;
                if k == 0 { done = true; }
            }
            if done { break; }
        }
    }
    print!("{}", out);
}
