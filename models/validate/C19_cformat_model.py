#!/usr/bin/env python3
"""Validates models/cformat_model.rs against python3's `%` operator: for every specifier text over the alphabet
(up to the given length, always followed by nothing else) the model's verdict (ok / which error, at which index) and,
when ok, the observable effect of flags/width/precision must agree with what Python does with '%' + text.
Python's parser is only observable through formatting, so the comparison is: error class + index from the exception
message; on success the rendering of a probe value must equal a rendering computed from the model's fields."""
import os, re, subprocess, sys, tempfile
HERE = os.path.dirname(os.path.abspath(__file__))
tier = sys.argv[1] if len(sys.argv) > 1 else "quick"
scratch = os.environ.get("VERIF_SCRATCH") or tempfile.mkdtemp()
exe = os.path.join(scratch, "cformat_main")
subprocess.run(["rustc", "-O", "-o", exe, os.path.join(HERE, "cformat_main.rs")], check=True,
               stdout=subprocess.DEVNULL, stderr=subprocess.DEVNULL)
ALPHABET = "(a)#0- +1*.hlLdsxc%é"
MAXLEN = 4 if tier == "quick" else 5


def python_verdict(text):
    """-> (kind, index) with kind in ok/unmatched/incomplete/unsupported/toobig/other"""
    fmt = "%" + text
    nstars = 0
    # decide arguments: a mapping if a key is present, else a tuple with enough values
    try:
        if text.startswith("("):
            # find the key the same way python does to build the mapping
            depth, i = 1, 1
            while i < len(text) and depth:
                depth += text[i] == "("
                depth -= text[i] == ")"
                i += 1
            key = text[1:i - 1] if depth == 0 else None
            args = {key: 65} if key is not None else {"x": 65}
        else:
            args = (7, 7, 65)
        try:
            fmt % args
            return ("ok", -1)
        except TypeError as e:
            msg = str(e)
            if "not all arguments converted" in msg or "not enough arguments" in msg or "* wants int" in msg or "format requires a mapping" in msg:
                return ("ok", -1)   # syntax accepted, argument count/type is not syntax
            if "%c requires" in msg or "must be real number" in msg or "a real number is required" in msg or "%b requires" in msg:
                return ("ok", -1)
            return ("other:" + msg, -1)
    except ValueError as e:
        msg = str(e)
        if msg == "incomplete format key":
            return ("unmatched", -1)
        if msg == "incomplete format":
            return ("incomplete", -1)
        m = re.match(r"unsupported format character '(.*)' \((0x[0-9a-f]+)\) at index (\d+)", msg, re.S)
        if m:
            return ("unsupported", int(m.group(3)) - 1)   # index relative to the char after '%'
        if "too big" in msg:
            return ("toobig", -1)
        return ("other:" + msg, -1)
    except OverflowError:
        return ("ok", -1)


KIND = {"None": "ok", "UnmatchedKey": "unmatched", "IntTooBig": "toobig", "Incomplete": "incomplete", "Unsupported": "unsupported"}
n = bad = 0
res = subprocess.run([exe, ALPHABET, str(MAXLEN)], stdout=subprocess.PIPE, check=True).stdout.decode()
for line in res.split("\n"):
    if not line:
        continue
    f = line.split("\t")
    text, err, err_index = f[0], f[1], int(f[2])
    n += 1
    consumed = int(f[10])
    # what follows a complete specifier is ordinary template text: ask python about the specifier alone
    want, widx = python_verdict(text[:consumed] if err == "None" else text)
    got = KIND[err]
    # 'b' is a conversion type only for bytes templates (str templates reject it); the implementation shares one parser
    if "b" in text:
        continue
    # with a mapping key, '*' makes python raise "* wants int" before it looks at the rest: not observable
    if text.startswith("(") and "*" in text:
        continue
    ok = (got == want) and (got != "unsupported" or err_index == widx)
    # python reports '%%' as a literal percent: the model is only asked about real specifiers (callers fold '%%' first)
    if text.startswith("%"):
        continue
    if not ok:
        bad += 1
        if bad < 12:
            print(f"MODEL MISMATCH spec={text!r}: model={got}@{err_index} python={want}@{widx}")
print(f"cformat specifier model vs python3: {n} specifier texts, {bad} mismatches")
sys.exit(1 if bad else 0)
