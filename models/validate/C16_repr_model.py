#!/usr/bin/env python3
"""Validates models/repr_model.rs against python3's repr() for every Latin-1 character and every byte, in the four
quote contexts (no other quote, a single quote, a double quote, both present). Mismatch => oracle error (exit 1)."""
import os, subprocess, sys, tempfile
HERE = os.path.dirname(os.path.abspath(__file__))
scratch = os.environ.get("VERIF_SCRATCH") or tempfile.mkdtemp()
exe = os.path.join(scratch, "repr_main")
subprocess.run(["rustc", "-O", "-o", exe, os.path.join(HERE, "repr_main.rs")], check=True,
               stdout=subprocess.DEVNULL, stderr=subprocess.DEVNULL)
bad = n = 0
for line in subprocess.run([exe], stdout=subprocess.PIPE, check=True).stdout.decode().splitlines():
    kind, cp, s, d, q, body = line.split(" ")
    cp, s, d = int(cp), int(s), int(d)
    n += 1
    if kind == "str":
        value = "'" * s + '"' * d + chr(cp)
        r = repr(value)
        want_q, want_body = r[0], r[1:-1]
        # the body of the last character only
        prefix = repr_prefix = ("\\'" if want_q == "'" else "'") * s + ('\\"' if want_q == '"' else '"') * d
        assert want_body.startswith(prefix), (value, r)
        want = want_body[len(prefix):].encode().hex()
    else:
        value = b"'" * s + b'"' * d + bytes([cp])
        r = repr(value)
        want_q, want_body = r[1], r[2:-1]
        prefix = ("\\'" if want_q == "'" else "'") * s + ('\\"' if want_q == '"' else '"') * d
        assert want_body.startswith(prefix), (value, r)
        want = want_body[len(prefix):].encode().hex()
    if q != want_q or body != want:
        bad += 1
        if bad < 10:
            print(f"MODEL MISMATCH {kind} cp={cp} s={s} d={d}: model={q}{body} python={want_q}{want}")
print(f"repr models vs python3: {n} cases, {bad} mismatches")
sys.exit(1 if bad else 0)
