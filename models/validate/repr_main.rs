include!("../repr_model.rs");
fn hex(b: &[u8]) -> String { b.iter().map(|x| format!("{:02x}", x)).collect() }
fn main() {
    // every Latin-1 character / every byte, alone and next to each quote kind
    for cp in 0u32..0x100 {
        for (s, d) in [(0usize, 0usize), (1, 0), (0, 1), (1, 1)] {
            let (s2, d2) = (s + (cp == 0x27) as usize, d + (cp == 0x22) as usize);
            let q = repr_quote_model(s2, d2);
            let mut out = [0u8; 10];
            let p = if cp < 0x80 { cp >= 0x20 && cp < 0x7f } else { latin1_printable(cp) };
            let n = repr_char_model(cp, q, p, &mut out);
            println!("str {} {} {} {} {}", cp, s, d, q as char, hex(&out[..n]));
            let n = repr_byte_model(cp as u8, q, &mut out);
            println!("bytes {} {} {} {} {}", cp, s, d, q as char, hex(&out[..n]));
        }
    }
}
