// Reference model of Python's str.format template parser (CPython Objects/stringlib/unicode_format.h:
// MarkupIterator_next + parse_field) and of the field-name splitter (FieldNameIterator / field_name_split).
// Shared verbatim by the Kani harness (include!) and by the native validator, which compares it with
// python3's `_string.formatter_parser` / `_string.formatter_field_name_split` over the complete bounded domain.
// Works on UTF-8 bytes, allocation-free. Output is a canonical byte serialisation:
//   literal character c          -> LIT c                (adjacent literal pieces therefore merge)
//   field                        -> FIELD name.. SEP conv.. SEP spec.. END      (conv = NOCONV if absent)
// Deliberate, documented difference from CPython's parser: a format spec may nest braces one level only
// (C20: "one level of nested braces"); deeper nesting is rejected (CPython rejects it when formatting).
pub const T_LIT: u8 = 0xF8;
pub const T_FIELD: u8 = 0xF9;
pub const T_SEP: u8 = 0xFA;
pub const T_END: u8 = 0xFB;
pub const T_NOCONV: u8 = 0xFC;

#[inline]
fn tm_put(out: &mut [u8], len: &mut usize, b: u8) {
    out[*len] = b;
    *len += 1;
}

fn tm_char_len(b: u8) -> usize {
    if b < 0x80 {
        1
    } else if b < 0xE0 {
        2
    } else if b < 0xF0 {
        3
    } else {
        4
    }
}

/// Returns Some(serialised length) if Python accepts the template, None if it raises ValueError.
pub fn template_model(t: &[u8], out: &mut [u8]) -> Option<usize> {
    let n = t.len();
    let mut len = 0usize;
    let mut i = 0usize;
    while i < n {
        let c = t[i];
        if c == b'{' || c == b'}' {
            if i + 1 < n && t[i + 1] == c {
                tm_put(out, &mut len, T_LIT);
                tm_put(out, &mut len, c);
                i += 2;
                continue;
            }
            if c == b'}' {
                return None; // Single '}' encountered in format string
            }
            i += 1;
            let name_start = i;
            let term;
            loop {
                if i >= n {
                    return None; // expected '}' before end of string / Single '{'
                }
                let d = t[i];
                if d == b'{' {
                    return None; // unexpected '{' in field name
                } else if d == b'[' {
                    i += 1;
                    while i < n && t[i] != b']' {
                        i += 1;
                    }
                    if i >= n {
                        return None;
                    }
                    i += 1;
                } else if d == b'}' || d == b':' || d == b'!' {
                    term = d;
                    break;
                } else {
                    i += 1;
                }
            }
            let name_end = i;
            i += 1;
            tm_put(out, &mut len, T_FIELD);
            let mut k = name_start;
            while k < name_end {
                tm_put(out, &mut len, t[k]);
                k += 1;
            }
            tm_put(out, &mut len, T_SEP);
            let mut term = term;
            if term == b'!' {
                if i >= n {
                    return None; // end of string while looking for conversion specifier
                }
                let l = tm_char_len(t[i]);
                let mut k = 0;
                while k < l {
                    tm_put(out, &mut len, t[i + k]);
                    k += 1;
                }
                i += l;
                if i >= n {
                    return None; // unmatched '{' in format spec
                }
                term = t[i];
                i += 1;
                if term != b'}' && term != b':' {
                    return None; // expected ':' after conversion specifier
                }
            } else {
                tm_put(out, &mut len, T_NOCONV);
            }
            tm_put(out, &mut len, T_SEP);
            if term == b':' {
                let mut nested = false;
                loop {
                    if i >= n {
                        return None; // unmatched '{' in format spec
                    }
                    let d = t[i];
                    i += 1;
                    if d == b'{' {
                        if nested {
                            return None; // (documented) more than one nesting level
                        }
                        nested = true;
                    } else if d == b'}' {
                        if nested {
                            nested = false;
                        } else {
                            break;
                        }
                    }
                    if true {
                        tm_put(out, &mut len, d);
                    }
                }
                // the closing brace was not part of the spec: it was never put (break precedes put)
            }
            tm_put(out, &mut len, T_END);
        } else {
            tm_put(out, &mut len, T_LIT);
            tm_put(out, &mut len, c);
            i += 1;
        }
    }
    Some(len)
}

// ---- field names -------------------------------------------------------------------------------
pub const F_AUTO: u8 = 0xF8;
pub const F_INDEX: u8 = 0xF9; // followed by the index value as 4 big-endian bytes
pub const F_KEY: u8 = 0xFA; // followed by the key bytes and F_END
pub const F_ATTR: u8 = 0xFB; // followed by the attribute bytes and F_END
pub const F_END: u8 = 0xFC;

fn fm_all_digits(t: &[u8], a: usize, b: usize) -> bool {
    let mut k = a;
    while k < b {
        if !(t[k] >= b'0' && t[k] <= b'9') {
            return false;
        }
        k += 1;
    }
    b > a
}

fn fm_put_index_or_key(t: &[u8], a: usize, b: usize, out: &mut [u8], len: &mut usize) {
    // bounded claim: at most 9 digits, so the value fits u32 (CPython raises for values above sys.maxsize)
    if fm_all_digits(t, a, b) {
        let mut v: u32 = 0;
        let mut k = a;
        while k < b {
            v = v * 10 + (t[k] - b'0') as u32;
            k += 1;
        }
        tm_put(out, len, F_INDEX);
        tm_put(out, len, (v >> 24) as u8);
        tm_put(out, len, (v >> 16) as u8);
        tm_put(out, len, (v >> 8) as u8);
        tm_put(out, len, v as u8);
    } else {
        tm_put(out, len, F_KEY);
        let mut k = a;
        while k < b {
            tm_put(out, len, t[k]);
            k += 1;
        }
        tm_put(out, len, F_END);
    }
}

/// Python's `_string.formatter_field_name_split`; None = ValueError.
pub fn field_name_model(t: &[u8], out: &mut [u8]) -> Option<usize> {
    let n = t.len();
    let mut len = 0usize;
    let mut i = 0usize;
    while i < n && t[i] != b'.' && t[i] != b'[' {
        i += 1;
    }
    if i == 0 {
        tm_put(out, &mut len, F_AUTO);
    } else {
        fm_put_index_or_key(t, 0, i, out, &mut len);
    }
    while i < n {
        if t[i] == b'.' {
            i += 1;
            let a = i;
            while i < n && t[i] != b'.' && t[i] != b'[' {
                i += 1;
            }
            if i == a {
                return None; // Empty attribute in format string
            }
            tm_put(out, &mut len, F_ATTR);
            let mut k = a;
            while k < i {
                tm_put(out, &mut len, t[k]);
                k += 1;
            }
            tm_put(out, &mut len, F_END);
        } else if t[i] == b'[' {
            i += 1;
            let a = i;
            while i < n && t[i] != b']' {
                i += 1;
            }
            if i >= n {
                return None; // Missing ']' in format string
            }
            if i == a {
                return None; // Empty attribute in format string
            }
            fm_put_index_or_key(t, a, i, out, &mut len);
            i += 1;
        } else {
            return None; // Only '.' or '[' may follow ']' in format field specifier
        }
    }
    Some(len)
}
