// Reference model of Python's printf-style specifier syntax (the part after '%'), from Objects/unicodeobject.c
// unicode_format_arg_parse: [ '(' key ')' ] flags* [ width | '*' ] [ '.' [ digits | '*' ] ] [ h | l | L ] type.
// Allocation-free; shared by the Kani harness and the native validator (compared with python3's `%` operator).
#[derive(Clone, Copy, PartialEq, Eq, Debug)]
pub enum CfErr {
    None,
    /// '(' without its closing ')': "incomplete format key"
    UnmatchedKey,
    /// width / precision above i32::MAX: "width too big" / "precision too big"
    IntTooBig,
    /// the template ended before the conversion type: "incomplete format"
    Incomplete,
    /// a character that is no conversion type: "unsupported format character"
    Unsupported,
}

#[derive(Clone, Copy, Debug)]
pub struct CfSpec {
    pub err: CfErr,
    pub err_index: usize, // index (after the '%') of the character the error is reported at
    pub has_key: bool,
    pub key_start: usize,
    pub key_end: usize, // key = chars[key_start..key_end]
    pub flags: u32,     // bit0 '#', bit1 '0', bit2 '-', bit3 ' ', bit4 '+'
    pub width_kind: u8, // 0 none, 1 amount, 2 '*'
    pub width: u32,
    pub prec_kind: u8, // 0 none, 1 '.' alone, 2 amount, 3 '*'
    pub prec: u32,
    pub type_char: u32,
    pub consumed: usize, // number of characters consumed on success
}

fn cf_digit(c: u32) -> Option<u32> {
    if c >= '0' as u32 && c <= '9' as u32 { Some(c - '0' as u32) } else { None }
}

pub fn cf_is_type(c: u32) -> bool {
    matches!(char::from_u32(c), Some('d' | 'i' | 'u' | 'o' | 'x' | 'X' | 'e' | 'E' | 'f' | 'F' | 'g' | 'G' | 'c' | 'r' | 's' | 'b' | 'a'))
}

/// chars: the code points after the '%'; n: how many there are
pub fn cformat_spec_model(chars: &[u32], n: usize) -> CfSpec {
    let mut s = CfSpec { err: CfErr::None, err_index: 0, has_key: false, key_start: 0, key_end: 0, flags: 0, width_kind: 0,
                         width: 0, prec_kind: 0, prec: 0, type_char: 0, consumed: 0 };
    let mut i = 0usize;
    // mapping key with nested parentheses
    if i < n && chars[i] == '(' as u32 {
        let open = i;
        i += 1;
        let mut depth = 1u32;
        s.key_start = i;
        loop {
            if i >= n {
                s.err = CfErr::UnmatchedKey;
                s.err_index = open;
                return s;
            }
            let c = chars[i];
            if c == '(' as u32 {
                depth += 1;
            } else if c == ')' as u32 {
                depth -= 1;
                if depth == 0 {
                    break;
                }
            }
            i += 1;
        }
        s.has_key = true;
        s.key_end = i;
        i += 1;
    }
    // flags, in any order and repetition
    while i < n {
        let c = chars[i];
        let bit = if c == '#' as u32 { 1 } else if c == '0' as u32 { 2 } else if c == '-' as u32 { 4 } else if c == ' ' as u32 { 8 }
                  else if c == '+' as u32 { 16 } else { 0 };
        if bit == 0 {
            break;
        }
        s.flags |= bit;
        i += 1;
    }
    // width
    if i < n && chars[i] == '*' as u32 {
        s.width_kind = 2;
        i += 1;
    } else if i < n && cf_digit(chars[i]).is_some() {
        s.width_kind = 1;
        let mut v: u64 = 0;
        while i < n {
            match cf_digit(chars[i]) {
                Some(d) => {
                    v = v * 10 + d as u64;
                    if v > i32::MAX as u64 {
                        s.err = CfErr::IntTooBig;
                        s.err_index = i;
                        return s;
                    }
                    i += 1;
                }
                None => break,
            }
        }
        s.width = v as u32;
    }
    // precision
    if i < n && chars[i] == '.' as u32 {
        i += 1;
        s.prec_kind = 1;
        if i < n && chars[i] == '*' as u32 {
            s.prec_kind = 3;
            i += 1;
        } else if i < n && cf_digit(chars[i]).is_some() {
            s.prec_kind = 2;
            let mut v: u64 = 0;
            while i < n {
                match cf_digit(chars[i]) {
                    Some(d) => {
                        v = v * 10 + d as u64;
                        if v > i32::MAX as u64 {
                            s.err = CfErr::IntTooBig;
                            s.err_index = i;
                            return s;
                        }
                        i += 1;
                    }
                    None => break,
                }
            }
            s.prec = v as u32;
        }
    }
    // one optional, ignored length modifier
    if i < n && (chars[i] == 'h' as u32 || chars[i] == 'l' as u32 || chars[i] == 'L' as u32) {
        i += 1;
    }
    if i >= n {
        s.err = CfErr::Incomplete;
        s.err_index = n;
        return s;
    }
    if !cf_is_type(chars[i]) {
        s.err = CfErr::Unsupported;
        s.err_index = i;
        s.type_char = chars[i];
        return s;
    }
    s.type_char = chars[i];
    s.consumed = i + 1;
    s
}
