// Reference model of Python's repr() of str / bytes, one character (or byte) at a time, allocation-free.
// Shared by the Kani harness (include!) and the native validator (compared with python3's repr over all
// Latin-1 characters / all bytes x both quote outcomes).
//   printable: Python's str.isprintable() of the character (supplied by the caller for non-ASCII characters;
//              for U+0080..U+00FF `latin1_printable` gives Python's answer, which no Unicode version changes).
// Returns the number of bytes written to `out` (at most 10).
pub fn latin1_printable(cp: u32) -> bool {
    cp >= 0xA1 && cp <= 0xFF && cp != 0xAD
}

fn rm_hex(d: u32) -> u8 {
    let d = (d & 0xF) as u8;
    if d < 10 { b'0' + d } else { b'a' + d - 10 }
}

/// `quote` is the quote character chosen for the whole literal (b'\'' or b'"').
pub fn repr_char_model(cp: u32, quote: u8, printable: bool, out: &mut [u8; 10]) -> usize {
    if cp == 0x0A { out[0] = b'\\'; out[1] = b'n'; return 2; }
    if cp == 0x09 { out[0] = b'\\'; out[1] = b't'; return 2; }
    if cp == 0x0D { out[0] = b'\\'; out[1] = b'r'; return 2; }
    if cp == 0x5C { out[0] = b'\\'; out[1] = b'\\'; return 2; }
    if cp >= 0x20 && cp <= 0x7E {
        if cp == quote as u32 { out[0] = b'\\'; out[1] = quote; return 2; }
        out[0] = cp as u8;
        return 1;
    }
    if cp < 0x20 || cp == 0x7F || (cp < 0x100 && !printable) {
        out[0] = b'\\'; out[1] = b'x'; out[2] = rm_hex(cp >> 4); out[3] = rm_hex(cp);
        return 4;
    }
    if printable {
        // the character itself, UTF-8 encoded
        if cp < 0x800 {
            out[0] = 0xC0 | (cp >> 6) as u8; out[1] = 0x80 | (cp & 0x3F) as u8;
            return 2;
        } else if cp < 0x10000 {
            out[0] = 0xE0 | (cp >> 12) as u8; out[1] = 0x80 | ((cp >> 6) & 0x3F) as u8; out[2] = 0x80 | (cp & 0x3F) as u8;
            return 3;
        } else {
            out[0] = 0xF0 | (cp >> 18) as u8; out[1] = 0x80 | ((cp >> 12) & 0x3F) as u8;
            out[2] = 0x80 | ((cp >> 6) & 0x3F) as u8; out[3] = 0x80 | (cp & 0x3F) as u8;
            return 4;
        }
    }
    if cp < 0x10000 {
        out[0] = b'\\'; out[1] = b'u';
        out[2] = rm_hex(cp >> 12); out[3] = rm_hex(cp >> 8); out[4] = rm_hex(cp >> 4); out[5] = rm_hex(cp);
        return 6;
    }
    out[0] = b'\\'; out[1] = b'U';
    out[2] = rm_hex(cp >> 28); out[3] = rm_hex(cp >> 24); out[4] = rm_hex(cp >> 20); out[5] = rm_hex(cp >> 16);
    out[6] = rm_hex(cp >> 12); out[7] = rm_hex(cp >> 8); out[8] = rm_hex(cp >> 4); out[9] = rm_hex(cp);
    10
}

pub fn repr_byte_model(b: u8, quote: u8, out: &mut [u8; 10]) -> usize {
    if b == 0x0A { out[0] = b'\\'; out[1] = b'n'; return 2; }
    if b == 0x09 { out[0] = b'\\'; out[1] = b't'; return 2; }
    if b == 0x0D { out[0] = b'\\'; out[1] = b'r'; return 2; }
    if b == 0x5C { out[0] = b'\\'; out[1] = b'\\'; return 2; }
    if b >= 0x20 && b <= 0x7E {
        if b == quote { out[0] = b'\\'; out[1] = quote; return 2; }
        out[0] = b;
        return 1;
    }
    out[0] = b'\\'; out[1] = b'x'; out[2] = rm_hex((b >> 4) as u32); out[3] = rm_hex(b as u32);
    4
}

/// Python's quote choice: single quotes unless the value contains a single and no double quote.
pub fn repr_quote_model(singles: usize, doubles: usize) -> u8 {
    if singles > 0 && doubles == 0 { b'"' } else { b'\'' }
}
