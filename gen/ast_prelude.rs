// ---- prelude (hand-written, /verif/gen/ast_prelude.rs) -------------------------------------------
#![allow(dead_code, unused_imports, clippy::all)]
use crate::*;

static mut FLAG: bool = false;

fn any_base() -> u32 {
    let b: u32 = kani::any();
    kani::assume(b >= 1 && b < (1 << 30));
    b
}

/// expected / observed direct children of a node: (kind id, tag) in field order, plus the node's own range tag
struct Exp {
    kind: [u8; 24],
    tag: [u32; 24],
    n: usize,
    own: u32,
}
impl Exp {
    fn new() -> Self {
        Exp { kind: [0; 24], tag: [0; 24], n: 0, own: 0 }
    }
    fn push(&mut self, kind: u8, tag: u32) {
        self.kind[self.n] = kind;
        self.tag[self.n] = tag;
        self.n += 1;
    }
}

/// the folded node holds the same children (kind and tag) in the same positions and the same own range
fn check_same(exp: &Exp, got: &Exp) {
    assert!(exp.n == got.n, "a child was dropped or duplicated");
    let mut i = 0;
    while i < exp.n {
        assert!(exp.kind[i] == got.kind[i] && exp.tag[i] == got.tag[i], "a child moved to another position");
        i += 1;
    }
    assert!(exp.own == got.own, "own range changed");
}

/// the folder saw every direct child exactly once, and map_user exactly once with the node's own range
fn check_recorded(exp: &Exp, seen: &Exp, has_range: bool) {
    assert!(seen.n == exp.n + has_range as usize);
    let mut i = 0;
    while i < exp.n {
        let mut hits = 0;
        let mut j = 0;
        while j < seen.n {
            if seen.kind[j] == exp.kind[i] && seen.tag[j] == exp.tag[i] {
                hits += 1;
            }
            j += 1;
        }
        assert!(hits == 1, "a direct child was not folded exactly once");
        i += 1;
    }
    if has_range {
        let mut hits = 0;
        let mut j = 0;
        while j < seen.n {
            if seen.kind[j] == 0 && seen.tag[j] == exp.own {
                hits += 1;
            }
            j += 1;
        }
        assert!(hits == 1, "map_user not called exactly once with the node's range");
    }
}

/// the visitor saw every direct child node (kinds that have a visit method) exactly once and nothing else
fn check_visited(exp: &Exp, seen: &Exp) {
    let mut want = 0;
    let mut i = 0;
    while i < exp.n {
        if exp.kind[i] != 14 {
            // (kind 14 = TypeIgnore has no visit method)
            want += 1;
            let mut hits = 0;
            let mut j = 0;
            while j < seen.n {
                if seen.kind[j] == exp.kind[i] && seen.tag[j] == exp.tag[i] {
                    hits += 1;
                }
                j += 1;
            }
            assert!(hits == 1, "a direct child was not visited exactly once");
        }
        i += 1;
    }
    assert!(seen.n == want);
}

// ---- leaves: the cheapest value of each child kind, carrying a tag ---------------------------------
fn mk_expr(t: u32) -> Expr<u32> {
    Expr::Name(ExprName { range: t, id: Identifier::new(""), ctx: ExprContext::Load })
}
fn tag_expr(e: &Expr<u32>) -> u32 {
    match e {
        Expr::Name(c) => c.range,
        _ => 0,
    }
}
fn mk_stmt(t: u32) -> Stmt<u32> {
    Stmt::Pass(StmtPass { range: t })
}
fn tag_stmt(s: &Stmt<u32>) -> u32 {
    match s {
        Stmt::Pass(p) => p.range,
        _ => 0,
    }
}
fn mk_pattern(t: u32) -> Pattern<u32> {
    Pattern::MatchSingleton(PatternMatchSingleton { range: t, value: Constant::None })
}
fn tag_pattern(p: &Pattern<u32>) -> u32 {
    match p {
        Pattern::MatchSingleton(p) => p.range,
        _ => 0,
    }
}
fn mk_type_param(t: u32) -> TypeParam<u32> {
    TypeParam::TypeVarTuple(TypeParamTypeVarTuple { range: t, name: Identifier::new("") })
}
fn tag_type_param(p: &TypeParam<u32>) -> u32 {
    match p {
        TypeParam::TypeVarTuple(p) => p.range,
        _ => 0,
    }
}
fn mk_handler(t: u32) -> ExceptHandler<u32> {
    ExceptHandler::ExceptHandler(ExceptHandlerExceptHandler { range: t, type_: None, name: None, body: Vec::new() })
}
fn tag_handler(h: &ExceptHandler<u32>) -> u32 {
    match h {
        ExceptHandler::ExceptHandler(h) => h.range,
    }
}
fn mk_comprehension(t: u32) -> Comprehension<u32> {
    Comprehension { range: Default::default(), target: mk_expr(t), iter: mk_expr(0), ifs: Vec::new(), is_async: false }
}
fn tag_comprehension(c: &Comprehension<u32>) -> u32 {
    tag_expr(&c.target)
}
fn mk_arg(t: u32) -> Arg<u32> {
    Arg { range: t, arg: Identifier::new(""), annotation: None, type_comment: None }
}
fn tag_arg(a: &Arg<u32>) -> u32 {
    a.range
}
fn mk_arg_with_default(t: u32) -> ArgWithDefault<u32> {
    ArgWithDefault { range: Default::default(), def: mk_arg(t), default: None }
}
fn tag_arg_with_default(a: &ArgWithDefault<u32>) -> u32 {
    a.def.range
}
fn mk_arguments(t: u32) -> Arguments<u32> {
    Arguments {
        range: Default::default(),
        posonlyargs: Vec::new(),
        args: Vec::new(),
        vararg: Some(Box::new(mk_arg(t))),
        kwonlyargs: Vec::new(),
        kwarg: None,
    }
}
fn tag_arguments(a: &Arguments<u32>) -> u32 {
    match &a.vararg {
        Some(v) => v.range,
        None => 0,
    }
}
fn mk_keyword(t: u32) -> Keyword<u32> {
    Keyword { range: t, arg: None, value: mk_expr(0) }
}
fn tag_keyword(k: &Keyword<u32>) -> u32 {
    k.range
}
fn mk_alias(t: u32) -> Alias<u32> {
    Alias { range: t, name: Identifier::new(""), asname: None }
}
fn tag_alias(a: &Alias<u32>) -> u32 {
    a.range
}
fn mk_withitem(t: u32) -> WithItem<u32> {
    WithItem { range: Default::default(), context_expr: mk_expr(t), optional_vars: None }
}
fn tag_withitem(w: &WithItem<u32>) -> u32 {
    tag_expr(&w.context_expr)
}
fn mk_match_case(t: u32) -> MatchCase<u32> {
    MatchCase { range: Default::default(), pattern: mk_pattern(t), guard: None, body: Vec::new() }
}
fn tag_match_case(m: &MatchCase<u32>) -> u32 {
    tag_pattern(&m.pattern)
}
fn mk_type_ignore(t: u32) -> TypeIgnore<u32> {
    TypeIgnore::TypeIgnore(TypeIgnoreTypeIgnore { range: Default::default(), lineno: Int::new(t), tag: String::new() })
}
fn tag_type_ignore(t: &TypeIgnore<u32>) -> u32 {
    match t {
        TypeIgnore::TypeIgnore(t) => t.lineno.to_u32(),
    }
}

// ---- leaf-recording folder: records what it is handed and returns it unchanged, never recursing -----
struct RecFolder {
    seen: Exp,
}
impl RecFolder {
    fn new() -> Self {
        RecFolder { seen: Exp::new() }
    }
}
macro_rules! rec_fold {
    ($m:ident, $t:ident, $k:expr, $tag:ident) => {
        fn $m(&mut self, node: $t<u32>) -> Result<$t<u32>, std::convert::Infallible> {
            self.seen.push($k, $tag(&node));
            Ok(node)
        }
    };
}
impl crate::fold::Fold<u32> for RecFolder {
    type TargetU = u32;
    type Error = std::convert::Infallible;
    type UserContext = ();
    fn will_map_user(&mut self, _u: &u32) {}
    fn map_user(&mut self, u: u32, _c: ()) -> Result<u32, std::convert::Infallible> {
        self.seen.push(0, u);
        Ok(u)
    }
    rec_fold!(fold_expr, Expr, 1, tag_expr);
    rec_fold!(fold_stmt, Stmt, 2, tag_stmt);
    rec_fold!(fold_pattern, Pattern, 3, tag_pattern);
    rec_fold!(fold_type_param, TypeParam, 4, tag_type_param);
    rec_fold!(fold_excepthandler, ExceptHandler, 5, tag_handler);
    rec_fold!(fold_comprehension, Comprehension, 6, tag_comprehension);
    rec_fold!(fold_arguments, Arguments, 7, tag_arguments);
    rec_fold!(fold_arg, Arg, 8, tag_arg);
    rec_fold!(fold_arg_with_default, ArgWithDefault, 9, tag_arg_with_default);
    rec_fold!(fold_keyword, Keyword, 10, tag_keyword);
    rec_fold!(fold_alias, Alias, 11, tag_alias);
    rec_fold!(fold_withitem, WithItem, 12, tag_withitem);
    rec_fold!(fold_match_case, MatchCase, 13, tag_match_case);
    rec_fold!(fold_type_ignore, TypeIgnore, 14, tag_type_ignore);
}

struct RecVisitor {
    seen: Exp,
}
impl RecVisitor {
    fn new() -> Self {
        RecVisitor { seen: Exp::new() }
    }
}
macro_rules! rec_visit {
    ($m:ident, $t:ident, $k:expr, $tag:ident) => {
        fn $m(&mut self, node: $t<u32>) {
            self.seen.push($k, $tag(&node));
            std::mem::forget(node);
        }
    };
}
#[cfg(feature = "visitor")]
impl crate::Visitor<u32> for RecVisitor {
    rec_visit!(visit_expr, Expr, 1, tag_expr);
    rec_visit!(visit_stmt, Stmt, 2, tag_stmt);
    rec_visit!(visit_pattern, Pattern, 3, tag_pattern);
    rec_visit!(visit_type_param, TypeParam, 4, tag_type_param);
    rec_visit!(visit_excepthandler, ExceptHandler, 5, tag_handler);
    rec_visit!(visit_comprehension, Comprehension, 6, tag_comprehension);
    rec_visit!(visit_arguments, Arguments, 7, tag_arguments);
    rec_visit!(visit_arg, Arg, 8, tag_arg);
    rec_visit!(visit_arg_with_default, ArgWithDefault, 9, tag_arg_with_default);
    rec_visit!(visit_keyword, Keyword, 10, tag_keyword);
    rec_visit!(visit_alias, Alias, 11, tag_alias);
    rec_visit!(visit_withitem, WithItem, 12, tag_withitem);
    rec_visit!(visit_match_case, MatchCase, 13, tag_match_case);
}

// ---- O1: constant-tuple optimiser ------------------------------------------------------------------
// @verif name=ast_optimizer_tuple0 props=C12 tier=quick features=constant-optimization fns="ConstantOptimizer::fold_expr"
//   bound="the empty tuple in every expression context (Load, Store, Del); symbolic range tag"
#[cfg(feature = "constant-optimization")]
#[kani::proof]
#[kani::unwind(8)]
fn ast_optimizer_tuple0() {
    check_optimizer(0);
}
// @verif name=ast_optimizer_tuple1 props=C12 tier=off timeout=2400 features=constant-optimization fns="ConstantOptimizer::fold_expr"
//   bound="1-tuples whose element is a constant or a name, every expression context; symbolic range tags"
#[cfg(feature = "constant-optimization")]
#[kani::proof]
#[kani::unwind(8)]
fn ast_optimizer_tuple1() {
    check_optimizer(1);
}
// @verif name=ast_optimizer_tuple2 props=C12 tier=off timeout=2400 features=constant-optimization fns="ConstantOptimizer::fold_expr"
//   bound="2-tuples whose elements are constants or names, every expression context; symbolic range tags"
#[cfg(feature = "constant-optimization")]
#[kani::proof]
#[kani::unwind(8)]
fn ast_optimizer_tuple2() {
    check_optimizer(2);
}
#[cfg(feature = "constant-optimization")]
fn check_optimizer(n: usize) {
    use crate::fold::Fold;
    {
        for ctx_id in 0..3u8 {
            let base = any_base();
            let c0: bool = kani::any();
            let c1: bool = kani::any();
            let leaf = |is_const: bool, t: u32| -> Expr<u32> {
                if is_const {
                    Expr::Constant(ExprConstant { range: t, value: Constant::None, kind: None })
                } else {
                    Expr::Name(ExprName { range: t, id: Identifier::new(""), ctx: ExprContext::Load })
                }
            };
            let mut elts = Vec::with_capacity(2);
            if n >= 1 {
                elts.push(leaf(c0, base + 1));
            }
            if n >= 2 {
                elts.push(leaf(c1, base + 2));
            }
            let ctx = match ctx_id {
                0 => ExprContext::Load,
                1 => ExprContext::Store,
                _ => ExprContext::Del,
            };
            let node = Expr::Tuple(ExprTuple { range: base, elts, ctx });
            let mut opt = crate::ConstantOptimizer::new();
            let out = match opt.fold_expr(node) {
                Ok(o) => o,
                Err(e) => match e {},
            };
            let all_const = (n < 1 || c0) && (n < 2 || c1);
            match &out {
                Expr::Constant(c) => {
                    // only load-context tuples of constants become the equal tuple constant, with the same range
                    assert!(ctx_id == 0 && all_const);
                    assert!(c.range == base);
                    match &c.value {
                        Constant::Tuple(v) => assert!(v.len() == n),
                        _ => assert!(false, "tuple constant expected"),
                    }
                    kani::cover!(true, "tuple folded to a constant");
                }
                Expr::Tuple(t) => {
                    assert!(!(ctx_id == 0 && all_const));
                    assert!(t.range == base && t.elts.len() == n);
                    assert!(matches!((&t.ctx, ctx_id), (ExprContext::Load, 0) | (ExprContext::Store, 1) | (ExprContext::Del, 2)));
                    if n >= 1 {
                        assert!(match &t.elts[0] { Expr::Constant(c) => c0 && c.range == base + 1, Expr::Name(x) => !c0 && x.range == base + 1, _ => false });
                    }
                    if n >= 2 {
                        assert!(match &t.elts[1] { Expr::Constant(c) => c1 && c.range == base + 2, Expr::Name(x) => !c1 && x.range == base + 2, _ => false });
                    }
                    kani::cover!(ctx_id == 1, "store tuple kept");
                }
                _ => assert!(false, "tuple or constant expected"),
            }
            std::mem::forget(out);
        }
    }
}
// ---- end of prelude ---------------------------------------------------------------------------------
